#!/venv/bin/python
"""Single entry point:  run.py <property id> [--tier quick|thorough] [--replay PATH]

exit 0: property held on everything explored (KNOWN-FINDING lines allowed)
exit 1: VIOLATION property=<id> replay=<path> printed
exit 2: machinery failure
"""
import argparse
import importlib
import os
import sys
import traceback

VERIF = os.path.dirname(os.path.abspath(__file__))
sys.path.insert(0, VERIF)
REPO = os.environ.get('VERIF_REPO', '/repo')
sys.path.insert(0, REPO)
os.environ.setdefault('PYTHONHASHSEED', '0')


def _janitor():
    """scratch directories of runs that were killed (TLC work directories can be gigabytes):
    anything of ours under /var/tmp that has not been touched for four hours"""
    import glob
    import shutil
    import time
    now = time.time()
    for d in glob.glob('/var/tmp/verif-tlc-*') + glob.glob('/var/tmp/verif-real-*') + \
            glob.glob('/var/tmp/verif-obs-*') + glob.glob('/var/tmp/verif-drv-*'):
        try:
            if now - os.stat(d).st_mtime > 4 * 3600:
                if os.path.isdir(d):
                    shutil.rmtree(d, ignore_errors=True)
                else:
                    os.unlink(d)
        except OSError:
            pass


def main():
    ap = argparse.ArgumentParser()
    ap.add_argument('pid')
    ap.add_argument('--tier', default=os.environ.get('VERIF_TIER', 'quick'),
                    choices=['quick', 'thorough'])
    ap.add_argument('--replay')
    a = ap.parse_args()
    seed = int(os.environ.get('VERIF_SEED', '0') or 0)
    from lib.check import Ctx
    from lib.tlc import TLCError
    from lib import replay
    from lib.sandbox import DriverCrash
    replay.start_workers()          # fork the replay workers while this process is small
    _janitor()
    mod = importlib.import_module('checks.%s' % a.pid.lower())
    ctx = Ctx(a.pid, a.tier, seed)
    try:
        if a.replay:
            mod.replay(ctx, a.replay)
        else:
            mod.main(ctx)
    except TLCError as exc:
        print('MACHINERY-FAILURE %s: %s' % (a.pid, exc), flush=True)
        return 2
    except DriverCrash as exc:
        # billiard raised on a call that is valid (and works) on the unchanged tree
        ctx.violation(exc.what, 'observed:driver-crash:%s' % a.pid, replay={'log': exc.log})
    except Exception:
        traceback.print_exc()
        print('MACHINERY-FAILURE %s' % a.pid, flush=True)
        return 2
    rc = ctx.finish()
    try:
        replay.stop_workers()
    except Exception:
        pass
    return rc


if __name__ == '__main__':
    rc = 2
    try:
        rc = main()
    finally:
        try:
            from lib import replay as _r
            _r.stop_workers()
        except Exception:
            pass
        sys.stdout.flush()
        os._exit(rc)
