#!/venv/bin/python
"""Single entry point:  run.py <property id> [--tier quick|thorough] [--replay PATH]

exit 0: property held on everything explored (KNOWN-FINDING lines allowed)
exit 1: VIOLATION property=<id> replay=<path> printed
exit 2: machinery failure
"""
import argparse
import importlib
import os
import sys
import traceback

VERIF = os.path.dirname(os.path.abspath(__file__))
sys.path.insert(0, VERIF)
REPO = os.environ.get('VERIF_REPO', '/repo')
sys.path.insert(0, REPO)
os.environ.setdefault('PYTHONHASHSEED', '0')


def show_replay(path):
    """print a replay file (what a VIOLATION line points to) in readable form: the actions of the
    behaviour that was replayed with the expected and the observed state, or the observed
    sequence / scenario record that falsified the formula"""
    import json
    with open(path) as fh:
        d = json.load(fh)
    print('property : %s' % d.get('property'))
    print('what     : %s' % d.get('what'))
    print('signature: %s' % d.get('signature'))
    r = d.get('replay') or {}
    if isinstance(r, dict):
        for k in ('label', 'scenario', 'module', 'constants', 'at', 'note'):
            if r.get(k) not in (None, ''):
                print('%-9s: %s' % (k, json.dumps(r[k]) if not isinstance(r[k], str) else r[k]))
        if r.get('acts'):
            print('actions:')
            for i, a in enumerate(r['acts']):
                print('  %2d %s' % (i, json.dumps(a, sort_keys=True)))
        for k in ('expected', 'observed'):
            if r.get(k) is not None:
                print('%s state: %s' % (k, json.dumps(r[k], sort_keys=True)))
        seq = r.get('obs')
        if seq:
            print('observed sequence:')
            for i, o in enumerate(seq):
                print('  %2d %s -> %s' % (i, json.dumps(o.get('act'), sort_keys=True),
                                          json.dumps(o.get('state'), sort_keys=True)[:400]))
        if r.get('trace'):
            print('TLC counterexample:')
            print(r['trace'])
        rest = {k: v for k, v in r.items() if k not in ('label', 'scenario', 'module', 'constants', 'at', 'note',
                                                       'acts', 'expected', 'observed', 'obs', 'trace')}
        if rest:
            print('record   : %s' % json.dumps(rest, sort_keys=True)[:2000])
    else:
        print('record   : %s' % json.dumps(r)[:2000])
    return 0


def _janitor():
    """scratch directories of runs that were killed (TLC work directories can be gigabytes):
    anything of ours under /var/tmp that has not been touched for four hours"""
    import glob
    import shutil
    import time
    now = time.time()
    for d in glob.glob('/var/tmp/verif-tlc-*') + glob.glob('/var/tmp/verif-real-*') + \
            glob.glob('/var/tmp/verif-obs-*') + glob.glob('/var/tmp/verif-drv-*'):
        try:
            if now - os.stat(d).st_mtime > 4 * 3600:
                if os.path.isdir(d):
                    shutil.rmtree(d, ignore_errors=True)
                else:
                    os.unlink(d)
        except OSError:
            pass


def main():
    ap = argparse.ArgumentParser()
    ap.add_argument('pid')
    ap.add_argument('--tier', default=os.environ.get('VERIF_TIER', 'quick'),
                    choices=['quick', 'thorough'])
    ap.add_argument('--replay')
    a = ap.parse_args()
    seed = int(os.environ.get('VERIF_SEED', '0') or 0)
    from lib.check import Ctx
    from lib.tlc import TLCError
    from lib import replay
    from lib.sandbox import DriverCrash
    replay.start_workers()          # fork the replay workers while this process is small
    _janitor()
    mod = importlib.import_module('checks.%s' % a.pid.lower())
    ctx = Ctx(a.pid, a.tier, seed)
    try:
        if a.replay:
            return show_replay(a.replay)
        else:
            mod.main(ctx)
    except TLCError as exc:
        print('MACHINERY-FAILURE %s: %s' % (a.pid, exc), flush=True)
        return 2
    except DriverCrash as exc:
        # billiard raised on a call that is valid (and works) on the unchanged tree
        ctx.violation(exc.what, 'observed:driver-crash:%s' % a.pid, replay={'log': exc.log})
    except Exception:
        traceback.print_exc()
        print('MACHINERY-FAILURE %s' % a.pid, flush=True)
        return 2
    rc = ctx.finish()
    try:
        replay.stop_workers()
    except Exception:
        pass
    return rc


if __name__ == '__main__':
    rc = 2
    try:
        rc = main()
    finally:
        try:
            from lib import replay as _r
            _r.stop_workers()
        except Exception:
            pass
        sys.stdout.flush()
        os._exit(rc)
