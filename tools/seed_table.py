#!/venv/bin/python
"""Print the seeded-change results table (DESIGN.md A.5) from seeded/*/meta.json."""
import glob
import json
import os

ROOT = os.path.dirname(os.path.dirname(os.path.abspath(__file__)))
rows = []
for f in sorted(glob.glob(os.path.join(ROOT, 'seeded', '*', 'meta.json'))):
    m = json.load(open(f))
    if m.get('kept') is False:
        continue          # not confirmed (the demonstration did not separate the trees): not a seed
    sid = m['id']
    what = m.get('what', '')
    checks = m.get('checks', {})
    cells = []
    for p, v in sorted(checks.items()):
        rc = v.get('rc')
        verdict = {1: 'VIOLATION', 0: 'missed', 2: 'machinery failure'}.get(rc, str(rc))
        if rc == 'timeout' and v.get('violations', 0) > 0:
            verdict = 'VIOLATION (then cut off by the seed runner\'s time limit, machine under load)'
        sigs = sorted(set(s.split('signature: ')[-1] for s in v.get('signatures', [])))
        names = sorted(set(x.split(':')[2] if x.count(':') >= 2 else x for x in sigs))
        cells.append('%s: %s%s (%ss)' % (p, verdict, (' -- ' + ', '.join(names[:3])) if names else '',
                                         int(v.get('wall_s', 0))))
    rows.append('| %s | %s | %s | %s |' % (sid, what, 'yes' if m.get('detected') else 'NO', '; '.join(cells)))
print('| seed | change | detected | quick check verdicts |')
print('|------|--------|----------|----------------------|')
print('\n'.join(rows))
det = sum(1 for r in rows if '| yes |' in r)
print('\n%d of %d seeded changes detected.' % (det, len(rows)))
