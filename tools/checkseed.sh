#!/bin/bash
# Development aid: the quick check of <property> against seeded change <seed>, verdict lines only
# (nothing is recorded; tools/seedrun.sh records).  usage: checkseed.sh <seed> <property>
s=$1; p=$2; d=/var/tmp/checkseed-$s-$$
git -C /repo worktree add --detach $d HEAD > /dev/null 2>&1 || exit 2
git -C $d apply /verif/seeded/$s/patch.diff || { git -C /repo worktree remove --force $d; exit 2; }
cd /verif
VERIF_REPO=$d VERIF_EVIDENCE_DIR=/var/tmp/checkseed-ev-$s-$$ timeout 1800 ./run.py $p 2>&1 | grep -v "TLC \|replay " | tail -${3:-10}
git -C /repo worktree remove --force $d; rm -rf $d /var/tmp/checkseed-ev-$s-$$
