#!/venv/bin/python
"""Replace the verdict table of DESIGN.md A.5 with the output of tools/seed_table.py."""
import re
import subprocess
p = '/verif/DESIGN.md'
s = open(p).read()
tab = subprocess.run(['/venv/bin/python', '/verif/tools/seed_table.py'], capture_output=True, text=True).stdout.strip()
a = s.index('| seed | change | detected | quick check verdicts |')
m = re.search(r'^\d+ of \d+ seeded changes detected\.$', s[a:], re.M)
b = a + m.end()
s = s[:a] + tab + s[b:]
open(p, 'w').write(s)
print(tab.splitlines()[-1])
