#!/venv/bin/python
"""Record the outcome of a manual seeded run (tools: run.py with VERIF_REPO=<patched worktree>,
output in a log file) in seeded/<id>/meta.json.   usage: record_seedrun.py <seed> <property> <log>"""
import json
import os
import re
import sys
import time

ROOT = os.path.dirname(os.path.dirname(os.path.abspath(__file__)))
sid, prop, log = sys.argv[1:4]
text = open(log, errors='replace').read()
m = re.search(r'^rc=(\S+)\s*$', text, re.M)
rc = m.group(1) if m else 'unknown'
rc = int(rc) if rc.lstrip('-').isdigit() else rc
if rc == 124:
    rc = 'timeout'
viol = [l for l in text.splitlines() if l.startswith('VIOLATION')]
sigs = [l.strip() for l in text.splitlines() if l.strip().startswith('signature:')]
wall = re.findall(r'^\[%s quick ([\d.]+)s\] states=' % prop, text, re.M)
path = os.path.join(ROOT, 'seeded', sid, 'meta.json')
meta = json.load(open(path))
meta.setdefault('checks', {})[prop] = {
    'rc': rc, 'violations': len(viol), 'signatures': sorted(set(sigs))[:4],
    'wall_s': float(wall[-1]) if wall else 0.0, 'recorded': time.strftime('%Y-%m-%d %H:%M'),
    'how': 'run.py %s --tier quick with VERIF_REPO=<scratch worktree of /repo HEAD + patch.diff>' % prop}
# a run that the seed runner's time limit cut off after it had printed VIOLATION lines has its verdict:
# a check that has reported a violation exits 1 when it gets to its end
meta['detected'] = any(v.get('rc') == 1 or (v.get('rc') == 'timeout' and v.get('violations', 0) > 0)
                       for v in meta['checks'].values())
json.dump(meta, open(path, 'w'), indent=1)
print(sid, prop, rc, len(viol))
