#!/bin/bash
# Development aid: run one unit (VERIF_UNIT syntax of checks/unit.py) against a seeded change.
# usage: unitseed.sh <seed> <unit[:arg]>
s=$1; u=$2; d=/var/tmp/unitseed-$s-$$
git -C /repo worktree add --detach $d HEAD > /dev/null 2>&1 || exit 2
git -C $d apply /verif/seeded/$s/patch.diff || { git -C /repo worktree remove --force $d; exit 2; }
cd /verif
VERIF_UNIT=$u VERIF_REPO=$d VERIF_EVIDENCE_DIR=/var/tmp/unitseed-ev-$s-$$ timeout 1500 ./run.py UNIT 2>&1 | grep -v "^\[UNIT.*TLC \|^\[UNIT.*replay " | tail -${3:-12}
git -C /repo worktree remove --force $d; rm -rf $d /var/tmp/unitseed-ev-$s-$$
