#!/bin/bash
# Run the quick check of <property> against seeded change <seed>:
#   scratch worktree of /repo's HEAD + seeded/<seed>/patch.diff, VERIF_REPO pointing at it;
#   the verdict is recorded in seeded/<seed>/meta.json (tools/record_seedrun.py).
# usage: seedrun.sh <seed> <property>
s=$1; p=$2; d=/var/tmp/seedrun-$s-$$; log=/var/tmp/seedrun-$s.log
git -C /repo worktree add --detach $d HEAD > /dev/null 2>&1 || exit 2
if ! git -C $d apply /verif/seeded/$s/patch.diff; then
  echo "APPLY FAILED" > $log; git -C /repo worktree remove --force $d; rm -rf $d; exit 2
fi
cd /verif
VERIF_REPO=$d VERIF_EVIDENCE_DIR=/var/tmp/seedrun-evidence-$s-$$ timeout 2700 ./run.py $p > $log 2>&1
echo "rc=$?" >> $log
/verif/tools/record_seedrun.py $s $p $log
git -C /repo worktree remove --force $d; rm -rf $d /var/tmp/seedrun-evidence-$s-$$
