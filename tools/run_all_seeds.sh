#!/bin/bash
# every seeded change against the quick check of its property, N at a time (default 3)
N=${1:-3}
cd /verif/seeded
for s in *; do p=$(python3 -c "import json;print(json.load(open('/verif/seeded/$s/meta.json'))['property'])"); echo "$s $p"; done \
  | xargs -P $N -L 1 /verif/tools/seedrun.sh
/verif/tools/seed_table.py | tail -1
