#!/bin/bash
# import a wave-4 seed produced in /tmp/w4/<P>.out as <P>-<n>, then drop the agent's worktree
p=$1; n=$2
cd /verif
extra=$(ls /tmp/w4/$p.out/*.py 2>/dev/null | grep -v "/demo.py$" | tr '\n' ' ')
./selftest.py import /tmp/w4/$p.out /tmp/w4/$p.out/patch.diff /tmp/w4/$p.out/demo.py $p-$n $p $extra > /var/tmp/import-$p-$n.log 2>&1
echo "rc=$?" >> /var/tmp/import-$p-$n.log
cp /tmp/w4/$p.out/notes.md /verif/seeded/$p-$n/notes.md 2>/dev/null
git -C /repo worktree remove --force /tmp/w4/$p 2>/dev/null
