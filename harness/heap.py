"""Binding A for Heap.tla: the real billiard.heap.Heap with real Arena/mmap objects.

Frees that arrive while the heap lock is held (garbage collector / another thread) are
injected at the two points of a locked call where they make a difference:
  gc1  right after the lock was taken (they are drained by the same call)
  gc2  after the pending list was drained (they stay pending)
"""
import mmap as _real_mmap
import threading

import billiard.heap as bh


class _MmapShim:
    """billiard.heap.mmap with a configurable PAGESIZE (real mmap objects)"""

    def __init__(self, pagesize):
        self.PAGESIZE = pagesize

    def mmap(self, *a, **kw):
        return _real_mmap.mmap(*a, **kw)

    def __getattr__(self, n):
        return getattr(_real_mmap, n)


class _HookLock:
    def __init__(self, owner, real):
        # wraps the lock the heap made for itself: what a re-entrant acquire does is the code's choice
        self._l = real
        self.owner = owner

    def acquire(self, blocking=True, timeout=-1):
        ok = self._l.acquire(blocking, timeout)
        if ok:
            self.owner._after_lock()
        return ok

    def release(self):
        self._l.release()

    def __enter__(self):
        self.acquire()
        return self

    def __exit__(self, *a):
        self.release()

    def locked(self):
        try:
            return self._l.locked()
        except AttributeError:        # an RLock has no locked() before 3.14
            if self._l.acquire(False):
                self._l.release()
                return False
            return True


class _HookSet(set):
    owner = None

    def remove(self, b):
        o = self.owner
        if o is not None and o.free_target is not None and b == o.free_target:
            o.free_target = None
            o._after_drain()
        set.remove(self, b)


class HeapAdapter:
    def __init__(self, consts):
        self.c = consts

    def reset(self, st):
        c = self.c
        self._real = bh.mmap
        bh.mmap = _MmapShim(c['Page'])
        self.h = bh.Heap(size=c['InitSize'])
        self.h._alignment = c['Align']
        self.h._lock = _HookLock(self, self.h._lock)
        hs = _HookSet()
        hs.owner = self
        self.h._allocated_blocks = hs
        real_roundup = bh.Heap._roundup

        def roundup(n, alignment):
            if self.in_malloc and alignment == self.h._alignment:
                self.in_malloc = False
                self._after_drain()
            return real_roundup(n, alignment)
        self.h._roundup = roundup
        self.req = {}
        self.gc1, self.gc2 = [], []
        self.in_malloc = False
        self.free_target = None
        self.depth = 0

    def close(self):
        bh.mmap = self._real
        self.h = None

    # ---- injection ------------------------------------------------------------
    def _blk(self, b):
        return (self.h._arenas[b[0] - 1], b[1], b[2])

    def _after_lock(self):
        if self.depth == 0:
            self.depth = 1
            try:
                for b in self.gc1:
                    self.h.free(self._blk(b))       # finds the lock taken -> pending
            finally:
                self.depth = 0
            self.gc1 = []

    def _after_drain(self):
        self.depth = 1
        try:
            for b in self.gc2:
                self.h.free(self._blk(b))
        finally:
            self.depth = 0
        self.gc2 = []

    # ---- actions ----------------------------------------------------------------
    def step(self, act):
        n = act['name']
        self.gc1, self.gc2 = list(act['gc1']), list(act['gc2'])
        if n == 'Malloc':
            self.in_malloc = True
            blk = self.h.malloc(act['size'])
            self.in_malloc = False
            got = self._unblk(blk)
            self.req[tuple(got)] = act['size']
            return dict(act, got=got)
        elif n == 'Free':
            self.free_target = self._blk(act['b'])
            self.h.free(self.free_target)
            self.free_target = None
        else:
            raise ValueError(n)

    def _unblk(self, blk):
        a, s, e = blk
        for i, ar in enumerate(self.h._arenas):
            if ar is a:
                return [i + 1, s, e]
        return [-1, s, e]

    def project(self):
        h = self.h
        lens = sorted(h._len_to_seq)
        fl = [[l, [self._unblk(b) for b in h._len_to_seq[l]]] for l in lens]
        live = sorted(self._unblk(b) for b in h._allocated_blocks)
        livet = {tuple(b) for b in live}
        self.req = {k: v for k, v in self.req.items() if k in livet}
        reqs = sorted([list(k), v] for k, v in self.req.items())
        # the three indexes must describe the same free list
        ok = lens == list(h._lengths)
        blocks = {b for seq in h._len_to_seq.values() for b in seq}
        ok = ok and set(h._start_to_block.values()) == blocks == set(h._stop_to_block.values())
        ok = ok and all(h._start_to_block.get((b[0], b[1])) == b and
                        h._stop_to_block.get((b[0], b[2])) == b for b in blocks)
        ok = ok and all(l == b[2] - b[1] for l, seq in h._len_to_seq.items() for b in seq)
        ok = ok and all(a.size == len(a.buffer) for a in h._arenas)
        return {'arenas': [a.size for a in h._arenas], 'fl': fl, 'live': live, 'reqs': reqs,
                'pend': [self._unblk(b) for b in h._pending_free_blocks], 'nsize': h._size,
                'ok': bool(ok)}

    def normalize(self, st):
        st = dict(st)
        st['live'] = sorted(st['live'])
        st['reqs'] = sorted(st['reqs'])
        return st
