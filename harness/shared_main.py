"""Driver process for C15's real-process part: locked increments from several processes,
two-way visibility, and the type sweep.  Writes JSON."""
import ctypes
import gc
import json
import os
import sys
import time

import billiard
import billiard.sharedctypes as sc

from harness import targets


def counters(method, nproc, n, held=False):
    """held: the parent holds the value's lock while the children are started (and for a while
    after) and makes one locked update of its own in that time"""
    ctx = billiard.get_context(method)
    v = ctx.Value('i', 0)
    seq = ctx.RawValue('i', 0) if hasattr(ctx, 'RawValue') else sc.RawValue('i', 0)
    ps, conns = [], []
    hold = None
    if held:
        v.get_lock().acquire()
        t_acq = time.monotonic()
    for _ in range(nproc):
        r, w = ctx.Pipe(duplex=False)
        p = ctx.Process(target=targets.locked_incr, args=(v, seq, n, w))
        p.start()
        w.close()
        ps.append(p)
        conns.append(r)
    logs = []
    if held:
        time.sleep(0.3)                   # the children are up and want the lock
        r0, s0 = v.value, seq.value
        seq.value = s0 + 1
        time.sleep(0.05)
        v.value = r0 + 1
        logs.append((s0, r0, r0 + 1, time.monotonic()))
        hold = (t_acq, time.monotonic())
        v.get_lock().release()
    for r in conns:
        if not r.poll(60):
            raise RuntimeError('child did not report')
        logs.extend(r.recv())
    for p in ps:
        p.join(10)
    logs.sort()
    obs = [{'act': {'name': 'Init'}, 'state': {'val': 0}}]
    for s, rd, wr, t in logs:
        # inhold: somebody else's locked section lies inside the interval in which the parent held the lock
        inhold = bool(hold and hold[0] < t < hold[1] and (s, rd) != (s0, r0))
        obs.append({'act': {'name': 'Incr', 'read': rd, 'written': wr, 'seq': s, 'inhold': inhold},
                    'state': {'val': wr}})
    return {'method': method + ('+held' if held else ''), 'nproc': nproc, 'n': n, 'final': v.value,
            'expected': nproc * n + (1 if held else 0), 'obs': obs}


def visible(method):
    ctx = billiard.get_context(method)
    arr = ctx.Array('i', 2, lock=False)
    r, w = ctx.Pipe(duplex=False)
    p = ctx.Process(target=targets.visibility, args=(arr, w))
    p.start()
    w.close()
    time.sleep(0.05)
    arr[0] = 17                       # parent -> child
    saw = r.recv() if r.poll(20) else None
    t0 = time.time()
    while arr[1] != 23 and time.time() - t0 < 10:
        time.sleep(0.001)
    p.join(10)
    return {'method': method, 'child_saw': saw, 'parent_saw': arr[1]}


def handed_on(method):
    """creator -> process A -> process B: an object that A merely received is still the shared one
    when A hands it on (simple types: what travels is a reference to the block, never a copy)"""
    ctx = billiard.get_context(method)
    val = ctx.Value('i', 7)
    dbl = ctx.Value('d', 1.25)
    r, w = ctx.Pipe(duplex=False)
    p = ctx.Process(target=targets.relay, args=(method, val, dbl, w))
    p.start()
    w.close()
    code = r.recv() if r.poll(60) else 'no answer'
    p.join(10)
    return {'method': method + '/two-hop', 'end_exit': code, 'int': val.value, 'double': dbl.value,
            'expected': [257, 1.75]}


def fork_isolation():
    """objects allocated after a fork, one in the child and one in the parent, do not share storage"""
    ctx = billiard.get_context('fork')
    warm = sc.RawArray('B', 64)                  # the parent's heap has an arena with free space before the fork
    r1, w1 = ctx.Pipe(duplex=False)
    r2, w2 = ctx.Pipe(duplex=False)
    n = 256
    p = ctx.Process(target=targets.private_array, args=(n, r1, w2))
    p.start()
    ok_child = None
    if r2.poll(30) and r2.recv() == 'filled':
        mine = sc.RawArray('B', n)
        zero_at_birth = all(x == 0 for x in mine)
        for i in range(n):
            mine[i] = 0xC3
        w1.send('go')
        ok_child = r2.recv() if r2.poll(30) else None
        ok_parent = all(x == 0xC3 for x in mine)
    else:
        zero_at_birth = ok_parent = None
    p.join(10)
    del warm
    return {'parent_zero_at_birth': zero_at_birth, 'parent_intact': ok_parent, 'child_intact': ok_child}


def _nonzero(seq, zero, attr=None):
    """some element differs from zero (memory that does not even decode counts as non-zero)"""
    try:
        return any((getattr(x, attr) if attr else x) != zero for x in seq)
    except ValueError:
        return True


def type_sweep():
    """every type code / ctypes type: created holding exactly its initial value, zero-filled
    without one even when its storage is recycled dirty memory; copy() is equal and separate"""
    bad = []
    n = 0
    samples = {'c': b'x', 'u': 'y', 'b': -5, 'B': 200, 'h': -300, 'H': 60000, 'i': -70000,
               'I': 4000000000, 'l': -2 ** 40, 'L': 2 ** 40, 'f': 0.5, 'd': -1e100}
    extra = [ctypes.c_longlong, ctypes.c_ulonglong, ctypes.c_bool, ctypes.c_size_t]
    for code, val in list(samples.items()) + [(t, 1) for t in extra]:
        for rnd in range(3):
            n += 1
            # dirty the memory a same-sized object will get
            t = sc.typecode_to_type.get(code, code)
            junk = sc.RawArray('B', [0xFF] * ctypes.sizeof(t))
            del junk
            gc.collect()
            z = sc.RawValue(code)
            zero = {'c': b'\x00', 'u': '\x00'}.get(code, 0)
            if _nonzero([z], zero, attr='value'):
                bad.append('RawValue(%r) not zero-filled' % (code,))
            v = sc.RawValue(code, val)
            if v.value != val and not (code == 'f'):
                bad.append('RawValue(%r, %r) reads %r' % (code, val, v.value))
            c = sc.copy(v)
            if c.value != v.value:
                bad.append('copy(%r) differs' % (code,))
            c.value = zero
            if v.value == zero and val != zero:
                bad.append('copy(%r) shares storage' % (code,))
            for ln in (0, 1, 3):
                junk = sc.RawArray('B', [0xEE] * (ctypes.sizeof(t) * max(ln, 1)))
                del junk
                gc.collect()
                a = sc.RawArray(code, ln)
                if _nonzero(a, zero):
                    bad.append('RawArray(%r, %d) not zero-filled' % (code, ln))
                b = sc.RawArray(code, [val] * ln)
                if list(b) != [val] * ln and code != 'f':
                    bad.append('RawArray(%r, init) wrong' % (code,))
                if ln:
                    b[0] = zero
                    if _nonzero(a, zero):
                        bad.append('RawArray(%r) objects share storage' % (code,))
    # the initial value of an array may come from any sequence: what counts is its *elements*, whatever
    # the container (lists, tuples, ranges, array.array of the same or of another element type of the
    # same or another width, ctypes arrays, bytes, bytearray, memoryview)
    import array as _array
    seqs = [('list', [1, 2, 3]), ('tuple', (1, 2, 3)), ('range', range(1, 4)),
            ('array-q', _array.array('q', [1, 2, 3])), ('array-i', _array.array('i', [1, 2, 3])),
            ('array-d', _array.array('d', [1.0, 2.0, 3.0])), ('array-f', _array.array('f', [1.0, 2.0, 3.0])),
            ('array-H', _array.array('H', [1, 2, 3])), ('array-B', _array.array('B', [1, 2, 3])),
            ('c_longlong[3]', (ctypes.c_longlong * 3)(1, 2, 3)), ('c_int[3]', (ctypes.c_int * 3)(1, 2, 3)),
            ('c_double[3]', (ctypes.c_double * 3)(1.0, 2.0, 3.0)), ('c_float[3]', (ctypes.c_float * 3)(1.0, 2.0, 3.0)),
            ('bytes', bytes([1, 2, 3])), ('bytearray', bytearray([1, 2, 3])),
            ('memoryview', memoryview(bytes([1, 2, 3])))]
    for code in ('b', 'B', 'h', 'H', 'i', 'I', 'l', 'L', 'f', 'd', ctypes.c_longlong, ctypes.c_ulonglong):
        for name, init in seqs:
            n += 1
            try:
                want = list(sc.typecode_to_type.get(code, code) and
                            (sc.typecode_to_type.get(code, code) * 3)(*list(init)))
            except TypeError:
                continue              # ctypes itself refuses these elements for this type (e.g. floats for ints)
            try:
                got = list(sc.RawArray(code, init))
            except Exception as exc:      # noqa
                bad.append('RawArray(%r, %s) raised %s' % (code, name, type(exc).__name__))
                continue
            if got != want:
                bad.append('RawArray(%r, %s) holds %r, not %r' % (code, name, got[:3], want[:3]))
    # composite types with a partial initialiser: what the initialiser does not name is zero,
    # whatever the recycled storage held before
    class Pt(ctypes.Structure):
        _fields_ = [('x', ctypes.c_int), ('y', ctypes.c_double), ('z', ctypes.c_short)]
    Arr5 = ctypes.c_int * 5
    for rnd in range(3):
        for t, args, want in ((Pt, (7,), (7, 0.0, 0)), (Pt, (), (0, 0.0, 0)), (Pt, (1, 2.5), (1, 2.5, 0)),
                              (Arr5, (1, 2), [1, 2, 0, 0, 0]), (Arr5, (), [0] * 5)):
            n += 1
            junk = sc.RawArray('B', [0xDD] * ctypes.sizeof(t))
            del junk
            gc.collect()
            for maker in (sc.RawValue, lambda *a: sc.Value(*a).get_obj()):
                o = maker(t, *args)
                got = (o.x, o.y, o.z) if t is Pt else list(o)
                if got != want:
                    bad.append('RawValue(%s, *%r) reads %r' % (t.__name__, args, got))
                del o
                gc.collect()
    return {'cases': n, 'bad': bad}


def main():
    out, tier = sys.argv[1], sys.argv[2]
    thorough = tier == 'thorough'
    res = {'counters': [], 'visibility': [], 'types': type_sweep(), 'fork_isolation': fork_isolation()}
    for method in ('fork', 'spawn', 'forkserver'):
        res['counters'].append(counters(method, 4 if thorough else 3, 300 if thorough else 100))
        res['counters'].append(counters(method, 3, 100, held=True))
        res['visibility'].append(visible(method))
        res.setdefault('handed_on', []).append(handed_on(method))
    with open(out + '.tmp', 'w') as fh:
        json.dump(res, fh)
    os.replace(out + '.tmp', out)
    sys.stdout.flush()
    os._exit(0)


if __name__ == '__main__':
    main()
