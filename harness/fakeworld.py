"""The fake world for the real billiard.pool.Pool (binding A).

Everything the parent process knows about its workers reaches it through
(1) the result pipe, (2) waitpid/exit status, (3) the signals it sends, (4) the clock.
All four are substituted from outside the repository so that the real Pool code runs
single-threaded on a virtual clock against scripted workers.
"""
import errno
import itertools
import pickle
import signal
import threading
from collections import deque

import billiard.common as bc
import billiard.pool as bp

CLOCK0 = 1000.0          # monotonic() is never 0 in reality (0 is falsy in the code)


class World:
    """One fake operating system: clock, processes, signals."""

    def __init__(self):
        self.t = 0           # virtual ticks since start
        self.pids = itertools.count(1)
        self.procs = {}      # pid -> FakeProcess
        self.sigs = []       # effective signals: (pid, 'TERM'|'KILL'|'USR1')
        self.lingers = set() # pids that ignore TERM during _trywaitkill's 0.1 s wait
        self.group_leaders = set()
        self.sleeps = 0.0

    def clock(self):
        return CLOCK0 + self.t

    def signal(self, pid, signum):
        p = self.procs.get(pid)
        if p is None or p._exit is not None:
            if p is None:
                raise OSError(errno.ESRCH, 'No such process')
            return             # zombie: kill() succeeds, no effect
        name = {signal.SIGTERM: 'TERM', signal.SIGKILL: 'KILL',
                getattr(signal, 'SIGUSR1', -1): 'USR1'}.get(signum, str(int(signum)))
        self.sigs.append((pid, name))
        if name == 'KILL':
            p._exit = -9
        elif name == 'TERM':
            p.term_requested = True


class FakePopen:
    def __init__(self, proc):
        self.proc = proc
        self.sentinel = -1

    def poll(self):
        return self.proc._exit

    def wait(self, timeout=None):
        p = self.proc
        if p._exit is None and p.term_requested and p.pid not in p.world.lingers:
            p._exit = -15            # honours TERM within the wait
        return p._exit


class FakeProcess:
    def __init__(self, world, target=None, **kw):
        self.world = world
        self.target = target
        self.pid = None
        self._popen = None
        self._exit = None
        self.term_requested = False
        self._name = 'Process-?'
        self.daemon = False
        self.index = None

    # billiard.process.BaseProcess surface used by Pool
    @property
    def name(self):
        return self._name

    @name.setter
    def name(self, v):
        self._name = v

    def start(self):
        self.pid = next(self.world.pids)
        self._popen = FakePopen(self)
        self.world.procs[self.pid] = self

    @property
    def exitcode(self):
        return self._exit

    def join(self, timeout=None):
        return

    def is_alive(self):
        return self._popen is not None and self._exit is None

    _is_alive = is_alive

    def terminate(self):
        self.world.signal(self.pid, signal.SIGTERM)

    def terminate_controlled(self):
        self._controlled_termination = True
        self.terminate()


class _End:
    def __init__(self, q, fd):
        self.q = q
        self._fd = fd
        self.send_offset = None

    def fileno(self):
        return self._fd

    def send(self, obj):
        if self.q.send_fail is not None:
            exc, self.q.send_fail = self.q.send_fail, None
            raise exc
        self.q.items.append(pickle.dumps(obj))      # really pickles, like a pipe

    def recv(self):
        return pickle.loads(self.q.items.popleft())

    def poll(self, timeout=0):
        return bool(self.q.items)

    def close(self):
        self.q.closed = True


class FakeSimpleQueue:
    _fds = itertools.count(100)

    def __init__(self):
        self.items = deque()
        self.closed = False
        self.send_fail = None
        self._reader = _End(self, next(self._fds))
        self._writer = _End(self, next(self._fds))
        self._rlock = threading.Lock()
        self._wlock = threading.Lock()

    def put(self, obj):
        self._writer.send(obj)

    def get(self):
        return self._reader.recv()

    def empty(self):
        return not self.items

    def close(self):
        self.closed = True

    # harness side
    def peek_all(self):
        return [pickle.loads(b) for b in self.items]


class FakeValue:
    def __init__(self, typecode='i', value=0):
        self.value = value
        self._lock = threading.RLock()

    def get_lock(self):
        return self._lock


class FakeEvent:
    def __init__(self):
        self._f = False

    def is_set(self):
        return self._f

    def set(self):
        self._f = True

    def clear(self):
        self._f = False


class FakeContext:
    def __init__(self, world):
        self.world = world

    def Process(self, *a, **kw):
        return FakeProcess(self.world, *a, **kw)

    def SimpleQueue(self):
        return FakeSimpleQueue()

    def Value(self, typecode, *a, **kw):
        return FakeValue(typecode)

    def Event(self):
        return FakeEvent()


class _OsShim:
    """billiard.pool.os: getpgid/killpg/kill go to the fake world, the rest is real."""

    def __init__(self, world, real):
        self._w = world
        self._real = real

    def getpgid(self, pid):
        return pid if pid in self._w.group_leaders else -1

    def killpg(self, pgid, sig):
        self._w.signal(pgid, sig)

    def kill(self, pid, sig):
        self._w.signal(pid, sig)

    def __getattr__(self, n):
        return getattr(self._real, n)


class _TimeShim:
    def __init__(self, world, real):
        self._w = world
        self._real = real

    def sleep(self, s):
        self._w.sleeps += s

    def __getattr__(self, n):
        return getattr(self._real, n)


_REAL = {}


def install(world):
    """Point billiard's module globals at the fake world (idempotent per process)."""
    if not _REAL:
        _REAL.update(bp_monotonic=bp.monotonic, bc_monotonic=bc.monotonic, kill=bp._kill,
                     os=bp.os, time=bp.time)
    bp.monotonic = world.clock
    bc.monotonic = world.clock
    bp._kill = world.signal
    bp.os = _OsShim(world, _REAL['os'])
    bp.time = _TimeShim(world, _REAL['time'])
    bp.job_counter = itertools.count()


def uninstall():
    if _REAL:
        bp.monotonic = _REAL['bp_monotonic']
        bc.monotonic = _REAL['bc_monotonic']
        bp._kill = _REAL['kill']
        bp.os = _REAL['os']
        bp.time = _REAL['time']
