"""Binding A for Feed.tla: the real billiard.pool.TaskHandler (body + tell_others) run on a
baton-passing helper thread.  Jobs are submitted through the real Pool.apply_async /
_map_async / imap / imap_unordered (unbound, on a stub pool), so task sequences, set_length
callbacks and handles (ApplyResult, MapResult, IMapIterator, IMapUnorderedIterator) are the
real ones.  Every blocking call of the handler -- taskqueue.get, next(taskseq), put(task),
outqueue.put(None), put(None) -- is a scheduling decision of the replayed behaviour."""
import logging
import queue
import threading

import billiard.pool as bp
import billiard.util as _bu
from lib.cothread import Co, Dead
from lib.replay import Unrealizable

_bu.get_logger().addHandler(logging.NullHandler())
_bu.get_logger().propagate = False


class BadIter(RuntimeError):
    pass


class Unsendable(Exception):
    """what a put raises when a task cannot be serialised"""


def fn(x):
    return x


class _Raising:
    """an iterable that yields n items and then, if asked to, raises"""

    def __init__(self, n, raises):
        self.n, self.raises = n, raises

    def __iter__(self):
        for i in range(self.n):
            yield ('in', i)
        if self.raises:
            raise BadIter('iterable failed after %d items' % self.n)


class _Stub:
    """just enough of a Pool for the unbound submission methods"""
    _state = bp.RUN
    threads = True
    putlocks = False
    _putlock = None
    soft_timeout = None
    timeout = None
    lost_worker_timeout = 10.0
    synack = False
    on_timeout_set = None
    on_timeout_cancel = None

    def __init__(self, psize):
        self._pool = [object() for _ in range(psize)]
        self._cache = {}
        self._taskqueue = queue.Queue()

    def _start_timeout_handler(self):
        pass

    def send_ack(self, *a):
        pass


class FeedAdapter:
    NW = 2

    def reset(self, st):
        self.shape = st['shape']
        bp.job_counter = iter(range(1000))
        self.stub = _Stub(self.NW)
        self.co = None
        self.sub = 0
        self.stopq = False
        self.hstate = 'RUN'
        self.cur, self.pos = 0, 0
        self.sent = []
        self.blame = []
        self.fin = set()
        self.outs = self.wsent = self.nfail = self.ndisc = 0
        self.tellio = False
        self.ecb = {}
        self.handles = {}
        self.seq_job = {}          # id(taskseq) -> spec job
        self.failing = None        # (spec job, index) of the task / item that is failing right now
        self.where = 'get'
        ad = self

        class TQ:
            def get(self_):
                ad.co.yield_(('get',))
                item = ad.stub._taskqueue.get_nowait()
                if item is None:
                    return None
                seq, set_length = item
                j = ad.seq_job[id(seq)]
                ad.cur, ad.pos = j, 0
                return ad._wrap(seq, j), set_length

        class OutQ:
            def put(self_, obj):
                assert obj is None
                ad.co.yield_(('out',))
                ad.outs += 1

        def put(task):
            cmd = ad.co.yield_(('put', task))
            if task is None:
                if cmd == 'io':
                    ad.tellio = True
                    ad.nfail += 1
                    raise IOError(32, 'Broken pipe')
                ad.wsent += 1
                return
            typ, (job, i, f, args, kw) = task
            if cmd == 'ok':
                ad.sent.append([job + 1, -1 if i is None else i])
                return
            ad.nfail += 1
            if cmd == 'io':
                raise IOError(32, 'Broken pipe')
            ad.failing = (job + 1, -1 if i is None else i)
            try:
                raise Unsendable('cannot serialise task %r' % (job,))
            finally:
                pass

        self.handler = bp.TaskHandler(TQ(), put, OutQ(), self.stub._pool, self.stub._cache)
        self.co = Co(self._body, name='feeder')
        msg = self.co.start()
        assert msg == ('get',), msg

    def _body(self):
        self.handler.body()

    def _wrap(self, seq, j):
        """the same task sequence, with a scheduling point before every fetch"""
        ad = self

        def gen():
            it = iter(seq)
            while True:
                ad.co.yield_(('iter',))
                ad.failing = (j, ad.pos)          # if producing the next item raises, it is item `pos`
                try:
                    t = next(it)
                except StopIteration:
                    ad.failing = None
                    ad.fin.add(j)
                    return
                except BaseException:
                    ad.fin.add(j)
                    raise
                ad.failing = None
                ad.pos += 1
                yield t
        return gen()

    def _watch(self, j, h):
        """record every failure filed under this handle (observation only)"""
        orig = h._set
        ad = self

        def _set(i, obj):
            if not obj[0]:
                ad.blame.append({'to': [j, -1 if i is None else i],
                                 'src': list(ad.failing) if ad.failing else [0, 0]})
            return orig(i, obj)
        h._set = _set

    # ---------------------------------------------------------------- actions
    def step(self, act):
        n = act['name']
        msg = None
        if n == 'Submit':
            j = act['j']
            s = self.shape[j - 1]
            before = set(self.stub._cache)
            self.ecb[j] = 0

            def ecb(exc, j=j):
                self.ecb[j] += 1
            if s['kind'] == 'apply':
                h = bp.Pool.apply_async(self.stub, fn, (j,), error_callback=ecb)
            elif s['kind'] == 'map':
                h = bp.Pool._map_async(self.stub, fn, [('in', i) for i in range(s['n'])], bp.mapstar,
                                       1, None, ecb)
            else:
                m = bp.Pool.imap if s['kind'] == 'imap' else bp.Pool.imap_unordered
                m(self.stub, fn, _Raising(s['n'], s['r'] > 0))
                new = set(self.stub._cache) - before
                h = self.stub._cache[new.pop()]
            if h._job != j - 1:
                raise AssertionError('job id %r for spec job %d' % (h._job, j))
            self.handles[j] = h
            self._watch(j, h)
            item = self.stub._taskqueue.queue[-1]
            self.seq_job[id(item[0])] = j
            self.sub += 1
        elif n == 'Close':
            self.stub._taskqueue.put(None)
            self.stopq = True
        elif n == 'Stop':
            self.handler._state = bp.TERMINATE
            self.hstate = 'STOP'
        elif n == 'Discard':
            self.handles[act['j']].discard()
            self.ndisc += 1
        elif n == 'Get':
            self._expect('get')
            msg = self.co.resume()
        elif n == 'Fetch':
            self._expect('iter')
            msg = self.co.resume()
        elif n in ('PutOk', 'PutIOError', 'PutExc'):
            self._expect('put')
            msg = self.co.resume({'PutOk': 'ok', 'PutIOError': 'io', 'PutExc': 'exc'}[n])
        elif n == 'TellOut':
            self._expect('tell')
            msg = self.co.resume()
        elif n in ('TellWOk', 'TellWIOError'):
            self._expect('tellw')
            msg = self.co.resume('ok' if n == 'TellWOk' else 'io')
        else:
            raise AssertionError(n)
        if msg is not None:
            self.failing = None
            self.where = self._pc(msg)

    def _pc(self, msg):
        if self.co.finished:
            if self.co.crash is not None:
                return 'crashed'
            return 'done'
        if msg[0] == 'get':
            return 'get'
        if msg[0] == 'iter':
            return 'iter'
        if msg[0] == 'out':
            return 'tell'
        if msg[0] == 'put':
            return 'tellw' if msg[1] is None else 'put'
        return 'odd:%r' % (msg,)

    def _expect(self, pc):
        if self.where != pc:
            raise Unrealizable('handler is at %r, behaviour wants %r' % (self.where, pc))

    # ------------------------------------------------------------- projection
    def _job(self, j):
        if j not in self.handles:
            return {'ecb': 0, 'res': False, 'ix': 0, 'uns': [], 'len': -1, 'inc': False}
        h = self.handles[j]
        inc = self.stub._cache.get(j - 1) is h
        if isinstance(h, bp.IMapIterator):
            return {'ecb': 0, 'res': bool(h._ready), 'ix': h._index,
                    'uns': sorted(k if k is not None else -1 for k in h._unsorted),
                    'len': -1 if h._length is None else h._length, 'inc': inc}
        return {'ecb': self.ecb[j], 'res': bool(h.ready()), 'ix': 0, 'uns': [], 'len': -1, 'inc': inc}

    def project(self):
        tq = []
        for item in list(self.stub._taskqueue.queue):
            tq.append(0 if item is None else self.seq_job[id(item[0])])
        return {'shape': self.shape, 'sub': self.sub, 'tq': tq, 'stopq': self.stopq,
                'hstate': self.hstate, 'pc': self.where, 'cur': self.cur, 'pos': self.pos,
                'sent': [list(x) for x in self.sent],
                'job': [self._job(j) for j in range(1, len(self.shape) + 1)],
                'blame': [dict(b) for b in self.blame], 'fin': sorted(self.fin),
                'outs': self.outs, 'wsent': self.wsent, 'tellio': self.tellio,
                'nfail': self.nfail, 'ndisc': self.ndisc}

    def quiesce(self):
        return []

    def close(self):
        if self.co is not None:
            self.co.destroy()
