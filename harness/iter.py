"""Binding A for Iter.tla: a real IMapIterator / IMapUnorderedIterator whose condition variable
is replaced by a cooperative one -- the consumer runs the real next(timeout) on a baton-passing
thread and parks where it reaches the lock and where it sleeps in wait(); the pool's side
(_set, _set_length) is called by the driver."""
import threading

import billiard.pool as bp
from billiard.exceptions import TimeoutError as BTimeoutError
from lib.cothread import Co


class CoCond:
    """threading.Condition as scheduling points.  Critical sections are atomic (nobody parks
    inside one), so the lock itself is only checked, never waited for."""

    def __init__(self, ad):
        self.ad = ad
        self.locked = False
        self.sleeping = False
        self.woken = None          # None | 'notified' | 'timedout'

    def _co(self):
        co = self.ad.consumer
        return co if co is not None and co.thread is threading.current_thread() else None

    def acquire(self, *a):
        co = self._co()
        if co is not None:
            co.yield_('want')
        if self.locked:
            raise AssertionError('critical sections overlap')
        self.locked = True
        return True

    def release(self):
        self.locked = False

    __enter__ = acquire

    def __exit__(self, *exc):
        self.release()

    def wait(self, timeout=None):
        co = self._co()
        if co is None:
            raise AssertionError('the driver thread must not wait')
        self.locked = False
        self.sleeping, self.woken = True, None
        co.yield_('waiting')
        # resumed: notified or timed out, and the lock is free again
        self.sleeping = False
        if self.locked:
            raise AssertionError('woken into a held lock')
        self.locked = True
        return self.woken == 'notified'

    def notify(self, n=1):
        if not self.locked:
            raise RuntimeError('cannot notify on un-acquired lock')
        if self.sleeping and self.woken is None:
            self.woken = 'notified'

    def notify_all(self):
        self.notify()

    notifyAll = notify_all


class IterAdapter:
    def __init__(self, consts):
        self.c = consts
        self.consumer = None

    def reset(self, st):
        bp.job_counter = iter(range(1, 100))
        self.cache = {}
        cls = bp.IMapIterator if self.c['Kind'] == 'imap' else bp.IMapUnorderedIterator
        self.it = cls(self.cache)
        self.cond = self.it._cond = CoCond(self)
        self.done = set()
        self.cres = []
        self.ncalls = 0
        self.timed = False
        self.lenset = False
        self.cpc = 'idle'
        self.consumer = Co(self._consume, name='consumer')
        self.consumer.start()

    def _consume(self):
        while True:
            cmd = self.consumer.yield_('idle')
            try:
                v = self.it.next(5.0 if cmd else None)
                self.cres.append(['item', v])
            except StopIteration:
                self.cres.append(['stop'])
            except BTimeoutError:
                self.cres.append(['timeout'])
            except Exception as exc:           # a failed part: Exception(value)
                self.cres.append(['err', exc.args[0] if exc.args else None])

    def _resume(self, cmd=None):
        msg = self.consumer.resume(cmd)
        if self.consumer.crash is not None:
            raise self.consumer.crash
        self.cpc = msg if isinstance(msg, str) else 'crashed'

    def step(self, act):
        n = act['name']
        if n == 'P_Set':
            i = act['i']
            self.done.add(i)
            self.it._set(i - 1, (i not in self.c['Fails'], i))
        elif n == 'P_SetLength':
            self.lenset = True
            self.it._set_length(self.c['N'])
        elif n == 'C_Call':
            self.timed = bool(act['timed'])
            self.ncalls += 1
            self._resume(self.timed)
        elif n == 'C_Enter':
            self._resume()
        elif n == 'C_Timeout':
            if not (self.cond.sleeping and self.cond.woken is None):
                raise AssertionError('no sleeper to time out')
            self.cond.woken = 'timedout'
        elif n == 'C_Wake':
            self._resume()
        else:
            raise ValueError(n)

    def project(self):
        it = self.it
        cpc = self.cpc
        if cpc == 'waiting' and self.cond.woken is not None:
            cpc = self.cond.woken
        return {'items': [v for ok, v in it._items], 'index': it._index, 'lenset': it._length is not None,
                'unsorted': sorted(k + 1 for k in it._unsorted), 'done': sorted(self.done), 'cpc': cpc,
                'timed': self.timed, 'ncalls': self.ncalls, 'cres': [list(r) for r in self.cres]}

    def quiesce(self):
        """after a divergence: let a consumer that can run do so"""
        for _ in range(4):
            if self.consumer.finished:
                return
            if self.cpc == 'want' or (self.cpc == 'waiting' and self.cond.woken is not None):
                self._resume()
                yield {'name': 'C_Wake' if self.cpc != 'want' else 'C_Enter'}, self.project()
            else:
                return

    def close(self):
        try:
            self.consumer.destroy()
        except Exception:
            pass
