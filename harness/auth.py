"""Binding A for Auth.tla: the real billiard.connection.deliver_challenge /
answer_challenge (in the order Listener.accept and Client use them), each party on a
helper thread over in-memory message channels; every blocking recv_bytes is a yield
point.  A hostile peer is played by the driver with concrete bytes built from what the
behaviour says (digests are real HMACs, challenges real os.urandom output)."""
import hmac
import threading

import billiard.connection as bconn
from billiard.exceptions import AuthenticationError
from lib.cothread import Co

KEYBYTES = {'k1': b'secret', 'k2': b'secret2', 'k3': b'Secret', 'k4': b's' * 4096}
CH = bconn.CHALLENGE
OWN = b'\x00' * bconn.MESSAGE_LENGTH          # a challenge of the hostile peer's own making


class Chan:
    def __init__(self):
        self.q = []
        self.closed = False


class FakeConn:
    """the subset of Connection the handshake uses"""

    def __init__(self, h, rx, tx, co_name):
        self.h, self.rx, self.tx, self.co_name = h, rx, tx, co_name

    def send_bytes(self, b):
        self.tx.q.append(bytes(b))

    def recv_bytes(self, maxlength=None):
        co = self.h.cos[self.co_name]
        self.h.nrecv[self.co_name] += 1
        co.yield_('recv')
        if not self.rx.q:
            if self.rx.closed:
                raise EOFError
            raise RuntimeError('scheduled a recv with nothing to read')
        m = self.rx.q.pop(0)
        if maxlength is not None and len(m) > maxlength:
            raise OSError('bad message length')
        return m


class AuthAdapter:
    def reset(self, st):
        # challenges are real os.urandom output, except that every other one starts (and ends) with
        # bytes that also occur in the protocol's own markers -- nothing may depend on what they are
        ad = self
        real_os = bconn.os
        ad._nrand = 0

        class _Os:
            def __getattr__(self_o, n):
                return getattr(real_os, n)

            def urandom(self_o, n):
                ad._nrand += 1
                b = real_os.urandom(n)
                if ad._nrand % 2 == 0 and n >= 4:
                    mark = b'#CHALLENGE#'
                    k = ad._nrand // 2
                    b = mark[k % len(mark):][:2] + b[2:-1] + mark[(k + 3) % len(mark):][:1]
                return b
        self._real_os = real_os
        bconn.os = _Os()
        self.mode, self.kl, self.kc = st['mode'], st['kl'], st['kc']
        self.sess = 1
        self.lres, self.cres = [], []
        self.chal = []               # concrete challenge bytes by token (1-based)
        self.lchal = self.cchal = 0
        self.nh = 0
        self._begin()

    def _begin(self):
        # an application that seeds the global PRNG (reproducible runs, a restarted service): the
        # freshness of a challenge must not rest on the state of the `random` module
        import random
        random.seed(20260923)
        self.l2c, self.c2l = Chan(), Chan()
        self.cos = {}
        self.lpc = 'L1' if self.mode in ('honest', 'hostile_client') else 'L1'
        self.cpc = 'C1'
        self.lchal = self.cchal = 0
        self.nh = 0
        self.pending = {}
        self.nrecv = {'L': 0, 'C': 0}
        if self.mode in ('honest', 'hostile_client'):
            conn = FakeConn(self, self.c2l, self.l2c, 'L')
            self.cos['L'] = Co(lambda: self._party('L', conn, KEYBYTES[self.kl]), name='L')
            self.pending['L'] = self.cos['L'].start()         # parks at 'start'
        if self.mode in ('honest', 'hostile_listener'):
            conn = FakeConn(self, self.l2c, self.c2l, 'C')
            self.cos['C'] = Co(lambda: self._party('C', conn, KEYBYTES[self.kc]), name='C')
            self.pending['C'] = self.cos['C'].start()
            self.pending['C'] = self.cos['C'].resume()         # on to its first recv

    def _party(self, who, conn, key):
        co = self.cos[who]
        co.yield_('start')
        out = 'ok'
        try:
            if who == 'L':           # Listener.accept
                bconn.deliver_challenge(conn, key)
                bconn.answer_challenge(conn, key)
            else:                    # Client
                bconn.answer_challenge(conn, key)
                bconn.deliver_challenge(conn, key)
        except AuthenticationError:
            out = 'autherr'
        except AssertionError:
            out = 'asserterr'
        except EOFError:
            out = 'eof'
        except OSError as exc:
            out = 'toolong' if 'bad message length' in str(exc) else 'oserror'
        (self.lres if who == 'L' else self.cres).append(out)
        if out != 'ok':
            (self.l2c if who == 'L' else self.c2l).closed = True
        co.yield_('done')

    def close(self):
        if getattr(self, '_real_os', None) is not None:
            bconn.os = self._real_os
            self._real_os = None
        self._stop_parties()

    def _stop_parties(self):
        for co in self.cos.values():
            try:
                co.destroy()
            except Exception:
                pass

    # ---- abstract <-> concrete messages -----------------------------------------
    def _token(self, cb):
        if cb == OWN:
            return 0
        if cb not in self.chal:
            self.chal.append(cb)
        return self.chal.index(cb) + 1

    def _abs(self, m):
        if m.startswith(CH) and len(m) == len(CH) + bconn.MESSAGE_LENGTH:
            return ['chal', self._token(m[len(CH):])]
        if m == bconn.WELCOME:
            return ['welcome']
        if m == bconn.FAILURE:
            return ['failure']
        if m == b'junk':
            return ['junk']
        if m == b'':
            return ['empty']
        if len(m) > 256:
            return ['big']
        for k, kb in KEYBYTES.items():
            for i, cb in enumerate([OWN] + self.chal):
                if m == hmac.new(kb, cb, 'md5').digest():
                    return ['dig', k, i]
        return ['unknown']

    def _conc(self, m):
        t = m[0]
        if t == 'chal':
            return CH + (OWN if m[1] == 0 else self.chal[m[1] - 1])
        if t == 'dig':
            cb = OWN if m[2] == 0 else self.chal[m[2] - 1]
            return hmac.new(KEYBYTES[m[1]], cb, 'md5').digest()
        return {'welcome': bconn.WELCOME, 'failure': bconn.FAILURE, 'junk': b'junk',
                'big': b'B' * 300, 'empty': b''}[t]

    def _note_challenges(self, who, before):
        """name the challenge an honest party has just put on the wire"""
        ch = self.l2c if who == 'L' else self.c2l
        for m in ch.q[before:]:
            a = self._abs(m)
            if a[0] == 'chal' and a[1] != 0:
                if who == 'L':
                    self.lchal = a[1]
                else:
                    self.cchal = a[1]

    # ---- actions -------------------------------------------------------------------
    def step(self, act):
        n = act['name']
        if n in ('L', 'C'):
            co = self.cos[n]
            before = len((self.l2c if n == 'L' else self.c2l).q)
            self.pending[n] = co.resume()
            if co.crash is not None:
                raise co.crash
            self._note_challenges(n, before)
        elif n == 'HSend':
            tx, rx = (self.c2l, self.l2c) if self.mode == 'hostile_client' else (self.l2c, self.c2l)
            for m in rx.q:
                self._abs(m)
            del rx.q[:]
            tx.q.append(self._conc(act['m']))
            self.nh += 1
        elif n == 'HClose':
            (self.c2l if self.mode == 'hostile_client' else self.l2c).closed = True
        elif n == 'NextSession':
            self._stop_parties()
            self.sess += 1
            self._begin()
        else:
            raise ValueError(n)

    def _pc(self, who):
        """where a party is, from the number of blocking receives it has reached"""
        if who not in self.cos:
            return 'L1' if who == 'L' else 'C1'
        res = self.lres if who == 'L' else self.cres
        if len(res) >= self.sess:
            return 'done'
        k = self.nrecv[who]
        if who == 'L':
            return 'L%d' % (k + 1)
        return {1: 'C1', 2: 'C2', 3: 'C4'}.get(k, 'C?%d' % k)

    def project(self):
        st = {'mode': self.mode, 'kl': self.kl, 'kc': self.kc, 'sess': self.sess,
              'lpc': self._pc('L'), 'cpc': self._pc('C'),
              'l2c': [self._abs(m) for m in self.l2c.q], 'c2l': [self._abs(m) for m in self.c2l.q],
              'lclosed': self.l2c.closed, 'cclosed': self.c2l.closed,
              'lres': list(self.lres), 'cres': list(self.cres), 'nchal': len(self.chal),
              'lchal': self.lchal, 'cchal': self.cchal, 'nh': self.nh}
        return st
