"""Binding A for Pool.tla: the real billiard.pool.Pool(threads=False) in the fake world."""
import pickle
import re
import threading

import billiard.pool as bp
from billiard.einfo import ExceptionInfo
from billiard.exceptions import (RestartFreqExceeded, Terminated, TimeLimitExceeded,
                                 WorkerLostError)

from . import fakeworld as fw
from lib.cothread import Co
from lib.replay import Unrealizable

import logging
import billiard.util as _bu
_bu.get_logger().addHandler(logging.NullHandler())
_bu.get_logger().propagate = False


class TaskError(Exception):
    pass


def task(j):          # never executed in the fake world; must be picklable
    return ('ok', j)


def _einfo(j):
    try:
        raise TaskError(j)
    except TaskError:
        return ExceptionInfo()


_SIG = re.compile(r'signal (\d+)')
_EXC = re.compile(r'exitcode (-?\d+)')


class Propagated(Exception):
    """raised by a user callback; listed in callbacks_propagate"""


class PoolAdapter:
    _rh_ended = False

    """consts: the Python-side copy of the TLC constants of the run being replayed."""

    def __init__(self, consts):
        self.c = consts

    # ------------------------------------------------------------------ reset
    def reset(self, st):
        c = self.c
        self._rh_ended = False
        self.world = fw.World()
        fw.install(self.world)
        self.pool = bp.Pool(
            processes=c['Procs'], threads=False, context=fw.FakeContext(self.world),
            timeout=c['PoolHard'] or None, soft_timeout=c['PoolSoft'] or None,
            lost_worker_timeout=c['Grace'] + 3, putlocks=c['PutLocks'],     # every job carries its own (Grace)
            max_restarts=c['MaxR'] or None, max_restart_freq=c['MaxT'],
            maxtasksperchild=c['Quota'] or None, enable_timeouts=True,
            on_timeout_set=self._on_tset, on_timeout_cancel=self._on_tcancel)
        self.pool.join = lambda: None          # maintain_pool's close(); join(); raise
        self.handles = []
        self.cnt = []
        self.wk = {p: {'pc': 'idle', 'j': 0, 'nd': 0} for p in self.world.procs}
        self.outmeta = []
        self.raised = False
        self.scan = None          # FineScan: the scan in progress (helper thread + its snapshot)
        self.hook = 'none'        # HookPause: a grow() / shrink() call parked in its user hook
        self.hookco = None
        if c.get('HookPause'):
            self.pool.on_grow = lambda n: self._park('grow')
            self.pool.on_shrink = lambda n: self._park('shrink')

    def _park(self, which):
        if self.hookco is not None and threading.current_thread() is self.hookco.thread:
            self.hook = which
            self.hookco.yield_('hook')
            self.hook = 'none'

    def _resize(self, fn):
        """run a resize call; with HookPause on a helper thread, up to its user hook"""
        if not self.c.get('HookPause'):
            return fn(1)
        self.hookco = Co(lambda: fn(1), name='resize')
        self.hookco.start()
        if self.hookco.crash is not None:
            raise self.hookco.crash

    def close(self):
        if self.hookco is not None:
            try:
                self.hookco.destroy()
            except Exception:
                pass
            self.hookco = None
        if self.scan is not None:
            try:
                self.scan['co'].destroy()
            except Exception:
                pass
            bp.copy = self.scan['real_copy']
            self.scan = None
        try:
            self.pool._terminate.cancel()
        except Exception:
            pass
        fw.uninstall()

    # -------------------------------------------------------------- callbacks
    def _counter(self, job_id):
        for h, c in zip(self.handles, self.cnt):
            if h._job == job_id:
                return c
        return None

    def _on_tset(self, job, soft, hard):
        c = self._counter(job._job)
        if c is not None:
            c['tset'] += 1

    def _on_tcancel(self, job):
        c = self._counter(job._job)
        if c is not None:
            c['tcancel'] += 1

    # ------------------------------------------------------------------ steps
    def _sync_workers(self):
        for pid in self.world.procs:
            self.wk.setdefault(pid, {'pc': 'idle', 'j': 0, 'nd': 0})

    def _put_out(self, msg, meta):
        self.pool._outqueue.items.append(pickle.dumps(msg))
        self.outmeta.append(meta)

    def _submit(self, act, expect_refused=False):
        j = len(self.handles) + 1
        c = {'cb': 0, 'ecb': 0, 'acb': 0, 'tsoft': 0, 'thard': 0, 'tset': 0, 'tcancel': 0,
             'tbad': 0, 'rel': False, 'late': False, 'lateack': False}
        soft, hard = act.get('soft', 0), act.get('hard', 0)

        def cb(v, c=c, j=j):
            c['cb'] += 1
            if self.c.get('CbRaise') and j % 2 == 1:
                # user code that fails with an exception the pool is told to let through
                # (callbacks_propagate): it reaches whoever drives the pool; nothing else changes
                raise Propagated(j)

        def ecb(e, c=c):
            c['ecb'] += 1

        def acb(pid, t, c=c):
            c['acb'] += 1

        def tcb(soft, timeout, c=c):
            c['tsoft' if soft else 'thard'] += 1
            c['last_tcb'] = (soft, timeout)

        h = self.pool.apply_async(task, (j,), callback=cb, error_callback=ecb,
                                  accept_callback=acb, timeout_callback=tcb,
                                  soft_timeout=soft or None, timeout=hard or None,
                                  lost_worker_timeout=self.c['Grace'],
                                  callbacks_propagate=(Propagated,) if self.c.get('CbRaise') else ())
        if expect_refused:
            if h is not None:
                raise AssertionError('closed pool accepted a job')
            return
        if h is None:
            raise AssertionError('running pool refused a job')
        if self.c.get('FineScan'):
            self._pausing(h)
        self.handles.append(h)
        self.cnt.append(c)

    def step(self, act):
        n = act['name']
        W = self.world
        pool = self.pool
        ret = None
        if n == 'Submit':
            self._submit(act)
        elif n == 'SubmitRefused':
            self._submit(act, expect_refused=True)
        elif n == 'Discard':
            self.handles[act['j'] - 1].discard()
        elif n == 'TerminateJob':
            pool.terminate_job(act['pid'])
        elif n == 'Close':
            pool.close()
        elif n == 'Grow':
            self._resize(pool.grow)
        elif n == 'Shrink':
            self._resize(pool.shrink)
        elif n == 'HookReturn':
            if self.hook == 'none' or self.hookco is None or self.hookco.finished:
                raise Unrealizable('no resize call is parked in its hook')
            self.hookco.resume()
            if self.hookco.crash is not None:
                raise self.hookco.crash
        elif n == 'W_Accept':
            pid = act['pid']
            raw = pool._inqueue.items.popleft()
            typ, (job, i, fun, args, kwargs) = pickle.loads(raw)
            assert typ == bp.TASK
            if job != self.handles[act['j'] - 1]._job:
                raise AssertionError('task pipe order differs from the specification')
            self.wk[pid].update(pc='run', j=act['j'])
            self._put_out((bp.ACK, (job, i, W.clock(), pid, None)),
                          {'t': 'ACK', 'j': act['j'], 'pid': pid, 'time': W.t})
        elif n == 'W_Finish':
            pid = act['pid']
            wk = self.wk[pid]
            j = wk['j']
            job = self.handles[j - 1]._job
            res = (True, ('ok', j)) if act['res'] == 'ok' else (False, _einfo(j))
            wk['nd'] += 1
            q = self.c['Quota']
            wk['pc'] = 'quota' if q and wk['nd'] >= q else 'idle'
            wk['j'] = 0
            self._put_out((bp.READY, (job, None, res, pool._inqueue._writer.fileno())),
                          {'t': 'READY', 'j': j, 'pid': pid, 'res': act['res']})
        elif n == 'DupReady':
            j = act['j']
            h = self.handles[j - 1]
            res = (True, ('ok', j)) if act['res'] == 'ok' else (False, _einfo(j))
            self._put_out((bp.READY, (h._job, None, res, pool._inqueue._writer.fileno())),
                          {'t': 'READY', 'j': j, 'pid': h._worker_pid or 0, 'res': act['res']})
        elif n == 'W_QuotaExit':
            W.procs[act['pid']]._exit = bp.EX_RECYCLE
        elif n == 'W_Die':
            W.procs[act['pid']]._exit = act['st']
        elif n == 'W_TermExit':
            W.procs[act['pid']]._exit = -15
        elif n in ('RH_Ack', 'RH_Ready'):
            if not self.outmeta or self.outmeta[0]['t'] != n[3:].upper():
                raise AssertionError('result pipe head differs from the specification')
            if n == 'RH_Ack':
                m0 = self.outmeta[0]
                h0, c0 = self.handles[m0['j'] - 1], self.cnt[m0['j'] - 1]
                if pool._cache.get(h0._job) is h0:
                    c0['lateack'] = m0['pid'] not in [p.pid for p in pool._pool]
            if n == 'RH_Ready':
                # observation (ghost) fields: did this message give the job's slot back?
                j = self.outmeta[0]['j']
                h, c = self.handles[j - 1], self.cnt[j - 1]
                if pool._cache.get(h._job) is h:
                    c['rel'] = c['rel'] or not h.ready()
                else:
                    c['late'] = c['late'] or not c['rel']
            before = len(pool._outqueue.items)
            # (an exception that went through the result handler's generator has ended it: the next
            #  call only notices that and starts a new one -- a wasted wake-up, as for an event loop)
            for attempt in ((0, 1) if self._rh_ended else (0,)):
                self._rh_ended = False
                try:
                    pool.handle_result_event()
                except Propagated:
                    self._rh_ended = True
                if len(pool._outqueue.items) == before - 1:
                    break
            if len(pool._outqueue.items) != before - 1:
                raise AssertionError('handle_result_event did not consume exactly one message')
            self.outmeta.pop(0)
        elif n == 'Maintain':
            raised = False
            try:
                pool.maintain_pool()
            except RestartFreqExceeded:
                raised = True
                self.raised = True
            self._sync_workers()
            ret = dict(act, raised=raised)
        elif n == 'Scan':
            W.lingers = set(act['lingers'])
            pool._timeout_handler.handle_event()
            W.lingers = set()
        elif n == 'ScanBegin':
            self._scan_begin()
            if self.scan is not None and self.scan['co'].finished:
                self._scan_end()
        elif n == 'ScanVisit':
            sc = self.scan
            if sc is None or not sc['left']:
                raise AssertionError('no scan visit pending')
            W.lingers = {self.handles[act['j'] - 1]._worker_pid} if act['linger'] else set()
            if sc['left'][0] != self.handles[act['j'] - 1]._job:
                raise AssertionError('scan visits jobs in a different order than the specification')
            sc['co'].resume()
            W.lingers = set()
            if sc['co'].crash is not None:
                raise sc['co'].crash
            if sc['co'].finished:
                self._scan_end()
        elif n == 'Tick':
            W.t += 1
        else:
            raise ValueError(n)
        return ret

    def _scan_end(self):
        sc = self.scan
        if sc is not None:
            bp.copy = sc['real_copy']
            sc['left'] = []
            self.scan = None

    def _finish_scan(self):
        """let a parked scan run to its end (free run / quiesce)"""
        n = 0
        while self.scan is not None and not self.scan['co'].finished and n < 50:
            self.scan['co'].resume()
            n += 1
        if self.scan is not None:
            if self.scan['co'].crash is not None:
                crash = self.scan['co'].crash
                self._scan_end()
                raise crash
            self._scan_end()

    def _pausing(self, h):
        """FineScan: the scanner parks at the start of every visit -- where it reads the job's
        acceptance time -- wherever in its code that visit happens to be"""
        ad = self
        cls = h.__class__

        class Parked(cls):
            def _vget(s):
                sc = ad.scan
                if sc is not None and sc.get('co') is not None and \
                        threading.current_thread() is sc['co'].thread:
                    k = s._job
                    while sc['left'] and sc['left'][0] != k and k in sc['left']:
                        sc['left'].pop(0)          # passed over without a visit
                    sc['co'].yield_('visit')
                    if sc['left'] and sc['left'][0] == k:
                        sc['left'].pop(0)
                return s.__dict__.get('_time_accepted')

            def _vset(s, v):
                s.__dict__['_time_accepted'] = v
            _time_accepted = property(_vget, _vset)
        Parked.__name__ = cls.__name__
        Parked.__qualname__ = cls.__qualname__
        h.__class__ = Parked

    def _scan_begin(self):
        """run one handle_event() of the time-limit scanner on a helper thread that parks
        before each job of its snapshot (the copy of the cache) is visited"""
        ad = self
        real_copy = bp.copy
        sc = {'left': [], 'real_copy': real_copy}

        class VisitDict(dict):
            """the scan's snapshot: remembers which jobs are still to be visited"""
            def items(self_d):
                keys = list(dict.keys(self_d))
                sc['left'] = list(keys)
                for k in keys:
                    yield k, dict.__getitem__(self_d, k)

        class CopyShim:
            def copy(self_c, x):
                return VisitDict(x)

            def __getattr__(self_c, nme):
                return getattr(real_copy, nme)
        bp.copy = CopyShim()
        th = self.pool._timeout_handler
        sc['co'] = Co(th.handle_event, name='scan')
        self.scan = sc
        sc['co'].start(timeout=2)       # a scan that takes no snapshot never reaches the shim
        if sc['co'].crash is not None:
            raise sc['co'].crash
        if sc['co'].finished:
            bp.copy = real_copy
            self.scan = None

    # ------------------------------------------------------------- projection
    def _job(self, j, h, c):
        pool = self.pool
        out, oarg = 'none', 0
        if h.ready():
            if h._success:
                out = 'ok' if h._value == ('ok', j) else 'wrongvalue'
            else:
                exc = h._value.exception
                exc = getattr(exc, 'exc', exc)     # ExceptionWithTraceback wrapper (unpickles to .exc)
                if isinstance(exc, TaskError):
                    out = 'err' if exc.args == (j,) else 'wrongerr'
                elif isinstance(exc, WorkerLostError):
                    out = 'lost'
                    m = _SIG.search(str(exc))
                    if m:
                        oarg = -int(m.group(1))
                    else:
                        m = _EXC.search(str(exc))
                        oarg = int(m.group(1)) if m else 9999
                    if 'Job: %d.' % h._job not in str(exc):
                        out = 'lost-wrongjob'
                elif isinstance(exc, TimeLimitExceeded):
                    out, oarg = 'timelimit', exc.args[0] if exc.args else 0
                    if not isinstance(oarg, int) or isinstance(oarg, bool):
                        oarg = int(oarg) if isinstance(oarg, float) and oarg == int(oarg) else 9999
                elif isinstance(exc, Terminated):
                    out, oarg = 'terminated', -(exc.args[0] if exc.args else 0)
                else:
                    out = 'other:' + type(exc).__name__
        if c.get('last_tcb'):
            soft, lim = c['last_tcb']
            want = h._soft_timeout if soft else h._timeout
            if lim != want:
                c['tbad'] += 1
            c['last_tcb'] = None
        lost = []
        if h._worker_lost:
            lost = [int(round(h._worker_lost[0] - fw.CLOCK0)), h._worker_lost[1]]
        return {
            'sub': True, 'soft': h._soft_timeout or 0, 'hard': h._timeout or 0,
            'acc': bool(h._accepted), 'owner': h._worker_pid or 0,
            'tacc': [] if h._time_accepted is None else [int(round(h._time_accepted - fw.CLOCK0))],
            'ready': bool(h.ready()), 'out': out, 'oarg': oarg, 'lost': lost,
            'cb': c['cb'], 'ecb': c['ecb'], 'acb': c['acb'], 'tsoft': c['tsoft'],
            'thard': c['thard'], 'tset': c['tset'], 'tcancel': c['tcancel'], 'tbad': c['tbad'],
            'rel': c['rel'], 'late': c['late'], 'lateack': c['lateack'],
            'incache': pool._cache.get(h._job) is h,
        }

    def project(self):
        pool, W = self.pool, self.world
        self._sync_workers()
        it = pool._timeout_handler._it
        dirty = []
        if it is not None and it.gi_frame is not None:
            ids = {h._job: k + 1 for k, h in enumerate(self.handles)}
            dirty = sorted(ids[d] for d in it.gi_frame.f_locals.get('dirty', ()) if d in ids)
        ids = {h._job: k + 1 for k, h in enumerate(self.handles)}
        inq = []
        for raw in pool._inqueue.items:
            m = pickle.loads(raw)
            inq.append(0 if m is None else ids.get(m[1][0], -1))
        rs = pool.restart_state
        wl = []
        for pid in sorted(W.procs):
            p = W.procs[pid]
            k = self.wk[pid]
            ex = [] if p._exit is None else [p._exit]
            wl.append({'pc': 'exited' if ex else k['pc'], 'j': k['j'] if not ex or True else 0,
                       'nd': k['nd'], 'ex': ex, 'term': bool(p.term_requested)})
        ids_rev = {h._job: k + 1 for k, h in enumerate(self.handles)}
        st = {
            'hook': self.hook,
            'scanning': self.scan is not None,
            'snap': [ids_rev.get(k, -1) for k in self.scan['left']] if self.scan else [],
            'pstate': {bp.RUN: 'RUN', bp.CLOSE: 'CLOSE', bp.TERMINATE: 'TERMINATE'}[pool._state],
            'nsub': len(self.handles),
            'job': [self._job(k + 1, h, c) for k, (h, c) in enumerate(zip(self.handles, self.cnt))],
            'pool': [{'pid': p.pid, 'idx': p.index,
                      'cnt': pool._on_ready_counters[p.pid].value,
                      'ctrl': bool(getattr(p, '_controlled_termination', False)),
                      'jterm': bool(getattr(p, '_job_terminated', False))} for p in pool._pool],
            'procs': pool._processes,
            'sem': [pool._putlock._value, pool._putlock._initial_value],
            'rs': {'R': rs.R, 'T': [] if rs.T is None else [int(round(rs.T - fw.CLOCK0))]},
            'dirty': dirty,
            'inq': inq,
            'outq': list(self.outmeta),
            'w': wl,
            'sigs': [[p, s] for p, s in W.sigs],
            'now': W.t,
            'raised': self.raised,
        }
        return st

    def normalize(self, st):
        st = dict(st)
        st['dirty'] = sorted(st.get('dirty', []))
        return st

    # ---------------------------------------------------------------- quiesce
    def quiesce(self):
        """Drive the real pool to a quiet point: deliver every pending message, let every
        running worker finish, reap, and let the clock run past every limit."""
        pool, W = self.pool, self.world
        if self.scan is not None:
            self._finish_scan()
            yield {'name': 'ScanRest'}, self.project()
        for rnd in range(6):
            # workers finish what they run
            for pid in sorted(W.procs):
                if W.procs[pid]._exit is None and self.wk[pid]['pc'] == 'run':
                    a = {'name': 'W_Finish', 'pid': pid, 'res': 'ok'}
                    self.step(a)
                    yield a, self.project()
            while self.outmeta:
                a = {'name': 'RH_' + self.outmeta[0]['t'].capitalize()}
                full = dict(self.outmeta[0])
                a.update({k: full[k] for k in ('j', 'pid', 'res') if k in full})
                self.step(a)
                yield a, self.project()
            for pid in sorted(W.procs):
                p = W.procs[pid]
                if p._exit is None and p.term_requested:
                    a = {'name': 'W_TermExit', 'pid': pid}
                    self.step(a)
                    yield a, self.project()
            a = {'name': 'Maintain'}
            a = self.step(a) or a
            yield a, self.project()
            a = {'name': 'Scan', 'lingers': []}
            self.step(a)
            yield a, self.project()
            a = {'name': 'Tick'}
            self.step(a)
            yield a, self.project()
