"""Driver for the real-pool scenario matrix: each scenario in its own interpreter (own
session, hard limit); a scenario whose process dies or hangs is itself an observation."""
import json
import os
import shutil
import signal
import subprocess
import sys
import tempfile
import time


def run_one(sc, bound=75):
    bound *= float(os.environ.get('VERIF_TIME_SCALE', '1'))
    env = dict(os.environ)
    scratch = tempfile.mkdtemp(prefix='verif-real-', dir='/var/tmp')
    env['VERIF_SCRATCH'] = scratch
    # the verdict is the host process's own exit, not EOF on a pipe its orphans may keep open
    p = subprocess.Popen([sys.executable, '-m', 'harness.poolreal_one', json.dumps(sc)],
                         stdout=subprocess.DEVNULL, stderr=subprocess.DEVNULL, env=env,
                         start_new_session=True)
    t0 = time.time()
    try:
        rc = p.wait(timeout=bound)
    except subprocess.TimeoutExpired:
        rc = 'timeout'
    try:
        os.killpg(p.pid, signal.SIGKILL)
    except OSError:
        pass
    if rc == 'timeout':
        try:
            p.wait(timeout=5)
        except Exception:
            pass
    res = None
    try:
        with open(os.path.join(scratch, 'RESULT')) as fh:
            res = json.load(fh)
    except (OSError, ValueError):
        pass
    shutil.rmtree(scratch, ignore_errors=True)
    fate = 'ok' if rc == 0 else 'hung' if rc == 'timeout' else 'died:%s' % rc
    if res is None:
        res = {'kind': sc['kind'], 'scenario': sc}
    res['host'] = fate
    res['wall10'] = int((time.time() - t0) * 10)
    return res


def main():
    out, tier = sys.argv[1], sys.argv[2]
    scen = json.loads(sys.argv[3])
    from concurrent.futures import ThreadPoolExecutor
    with ThreadPoolExecutor(6) as ex:
        res = list(ex.map(run_one, scen))
    with open(out + '.tmp', 'w') as fh:
        json.dump(res, fh)
    os.replace(out + '.tmp', out)
    os._exit(0)


if __name__ == '__main__':
    main()
