"""Binding A for Worker.tla: the real billiard.pool.Worker.__call__ run in-process.

The worker body runs in a helper thread that is only ever runnable when the driver
hands it the baton (strict alternation => deterministic); every blocking point of the
real loop is a yield point:

    wait     inq._reader.poll()            (wait_for_job)
    syn      synq._reader.poll()           (wait_for_syn)
    run      inside the task function
    ensure   reading the on_ready counter  (_ensure_messages_consumed)
    exiting  the exit callback             (_do_exit)
    gone     os._exit()
"""
import pickle
import signal
import sys
import threading
from collections import deque

import billiard.common as bc
import billiard.einfo as _be
import billiard.pool as bp
from billiard.einfo import ExceptionInfo

import logging
import billiard.util as _bu
_bu.get_logger().addHandler(logging.NullHandler())
_bu.get_logger().propagate = False

PID = 7
CLOCK0 = 1000.0


class TaskError(Exception):
    pass


class TaskBase(BaseException):
    pass


class _Dead(BaseException):
    """unwinds a helper thread when its replay is over"""


_CUR = [None]


def task(j):          # module level: it travels through the (pickling) fake task pipe
    return _CUR[0]._task(j)


class Co:
    """strict-alternation coroutine on a real thread"""

    def __init__(self, fn):
        self.to_w = threading.Semaphore(0)
        self.to_d = threading.Semaphore(0)
        self.msg = None
        self.cmd = None
        self.finished = False
        self.dead = False
        self.kill = threading.Event()
        self.thread = threading.Thread(target=self._run, args=(fn,), daemon=True)

    def _run(self, fn):
        self.to_w.acquire()
        try:
            fn()
        except BaseException as exc:      # noqa
            self.msg = ('crashed', repr(exc))
        self.finished = True
        self.to_d.release()

    def start(self):
        self.thread.start()
        return self.resume()

    # worker side
    def yield_(self, what):
        if self.dead:
            raise _Dead()
        self.msg = what
        self.to_d.release()
        self.to_w.acquire()
        if self.dead:
            raise _Dead()
        return self.cmd

    def park(self, what):
        if self.dead:
            raise _Dead()
        self.msg = what
        self.finished = True
        self.to_d.release()
        self.kill.wait()          # os._exit never returns; released only to reclaim the thread
        raise _Dead()

    def destroy(self):
        self.dead = True
        self.kill.set()
        self.to_w.release()
        self.thread.join(5)

    # driver side
    def resume(self, cmd=None):
        if self.finished:
            raise RuntimeError('worker thread is gone')
        self.cmd = cmd
        self.to_w.release()
        if not self.to_d.acquire(timeout=20):
            raise RuntimeError('worker thread did not reach a yield point')
        return self.msg


class _QEnd:
    def __init__(self, q, fd, label):
        self.q, self._fd, self.label = q, fd, label
        self.send_offset = None

    def fileno(self):
        return self._fd

    def close(self):
        pass

    def send(self, obj):
        self.q.items.append(pickle.dumps(obj))
        self.q.history.append(obj)

    def recv(self):
        return pickle.loads(self.q.items.popleft())

    def poll(self, timeout=0):
        h = self.q.h
        if h is not None and threading.current_thread() is h.co.thread:
            cmd = h.co.yield_(self.label)
            h.handle_cmd(cmd)
        return bool(self.q.items)


class _Q:
    def __init__(self, h, fd, label):
        self.h = h
        self.items = deque()
        self.history = []
        self._reader = _QEnd(self, fd, label)
        self._writer = _QEnd(self, fd + 1, label)

    def put(self, obj):
        self._writer.send(obj)

    def get(self):
        return self._reader.recv()


class _Counter:
    """on_ready_counter: reading it from the worker thread is the 'ensure' yield point"""

    def __init__(self, h):
        self.h = h
        self._v = 0

    @property
    def value(self):
        h = self.h
        if threading.current_thread() is h.co.thread:
            # is workloop's `finally` running on the way out of a `return`, or while an
            # exception (SystemExit) is in flight?
            h.by_return = sys.exc_info()[0] is None
            cmd = h.co.yield_('ensure')
            h.handle_cmd(cmd)
            if self._v < h.completed_seen():
                h.sleeps += 1
        return self._v

    @value.setter
    def value(self, v):
        self._v = v

    def __bool__(self):
        return True


class _Os:
    def __init__(self, h, real):
        self._h, self._real = h, real

    def getpid(self):
        return PID

    def _exit(self, code):
        self._h.status = [code]
        self._h.co.park('gone')

    def __getattr__(self, n):
        return getattr(self._real, n)


class _Time:
    def __init__(self, real):
        self._real = real

    def sleep(self, s):
        return

    def __getattr__(self, n):
        return getattr(self._real, n)


def _deep(n, j):
    """raise TaskError(j) from n frames further down"""
    if n <= 0:
        raise TaskError(j)
    _deep(n - 1, j)


def _refusing(pid, time_accepted):
    raise RuntimeError('the accept callback refuses this job')


class _Unpicklable:
    """fails to pickle, with one of several error classes (picked by the job number)"""

    def __init__(self, j=0):
        self.j = j

    def __reduce__(self):
        raise [pickle.PicklingError, ValueError, RuntimeError, TypeError][self.j % 4]('not today')


class _BadRepr(_Unpicklable):
    def __repr__(self):
        raise RuntimeError('no repr either')


_REAL = {}


class WorkerAdapter:
    def __init__(self, consts):
        self.c = consts

    # ---- plumbing -----------------------------------------------------------
    def handle_cmd(self, cmd):
        """runs in the worker thread, right after a yield point was resumed"""
        if cmd == 'signal':
            bc._shutdown_cleanup(signal.SIGTERM, None)      # raises SystemExit here

    def completed_seen(self):
        f = sys._current_frames().get(self.co.thread.ident)
        while f is not None:
            if f.f_code.co_name == '_ensure_messages_consumed':
                return f.f_locals.get('completed', 0)
            f = f.f_back
        return 0

    def _task(self, j):
        self.executed.append(j)
        while True:
            cmd = self.co.yield_('run')
            if cmd == 'signal':
                bc._shutdown_cleanup(signal.SIGTERM, None)
            if cmd == 'signal-caught':
                try:
                    bc._shutdown_cleanup(signal.SIGTERM, None)
                except BaseException:     # the task's own handler swallows it
                    pass
                continue
            kind = cmd[1]
            if kind == 'ok':
                return ('ok', j)
            if kind == 'memover':
                self.mem = 10 ** 9
                return ('ok', j)
            if kind == 'raise':
                raise TaskError(j)
            if kind == 'raise_deep':
                _deep(max(200, sys.getrecursionlimit() - 120), j)
            if kind == 'baseexc':
                raise TaskBase(j)
            if kind == 'unpicklable':
                v = _Unpicklable(j)           # fails to pickle at nesting depth j % 4
                for lvl in range(j % 4):
                    v = {'k': [1, v]} if lvl % 2 else [v, 'x']
                return v
            if kind == 'unpicklable_deep':
                v = _Unpicklable(j)           # nested beyond the recursion limit: repr() fails as well
                for _ in range(sys.getrecursionlimit() * 3):
                    v = [v]
                return v
            if kind == 'unpicklable_badrepr':
                return [_BadRepr(j)]
            raise ValueError(kind)

    def _on_exit(self, pid, code):
        self.onexit_args = (pid, code)
        self.co.yield_('exiting')
        self.onexit += 1

    def reset(self, st):
        c = self.c
        if not _REAL:
            _REAL.update(os=bp.os, time=bp.time, defaults=bp.Worker.workloop.__defaults__,
                         mem_rss=bp.mem_rss, limit=bp.GUARANTEE_MESSAGE_CONSUMPTION_RETRY_LIMIT,
                         sysexit=sys.exit)
        self.t = 0
        self.mem = 1
        self.status = []
        self.onexit = 0
        self.sleeps = 0
        self.executed = []
        self.nacked = []
        self.cur = 0
        self.rd = 0
        self.jobs = {}            # j -> parent-side ApplyResult (handshake)
        self.cache = {}
        bc._should_have_exited[0] = False
        bp.os = _Os(self, _REAL['os'])
        bp.time = _Time(_REAL['time'])
        bp.mem_rss = lambda: self.mem
        bp.GUARANTEE_MESSAGE_CONSUMPTION_RETRY_LIMIT = c['GuardLimit']
        d = _REAL['defaults']
        bp.Worker.workloop.__defaults__ = (d[0], lambda: CLOCK0 + self.t, d[2])
        self.inq = _Q(self, 10, 'wait')
        self.outq = _Q(None, 20, 'out')
        self.synq = _Q(self, 30, 'syn') if c['Synack'] else None
        self.counter = _Counter(self)
        self.w = bp.Worker(self.inq, self.outq, self.synq, None, (), c['Quota'] or None, None,
                           self._on_exit, True, True,
                           100 if 'memover' in c['Kinds'] else None, self.counter)
        self.w.after_fork = lambda: None       # no fds to close, no signal handlers here
        real_ensure = self.w._ensure_messages_consumed

        def ensure(completed):
            self._last_completed = completed
            return real_ensure(completed=completed)
        self.w._ensure_messages_consumed = ensure
        self.by_return = False
        _CUR[0] = self
        self.co = Co(self.w)
        self.where = self.co.start()
        if self.where != 'wait':
            raise RuntimeError('worker did not reach its first wait: %r' % (self.where,))

    def close(self):
        try:
            self.co.destroy()
        except Exception:
            pass
        if _REAL:
            bp.os = _REAL['os']
            bp.time = _REAL['time']
            bp.mem_rss = _REAL['mem_rss']
            bp.GUARANTEE_MESSAGE_CONSUMPTION_RETRY_LIMIT = _REAL['limit']
            bp.Worker.workloop.__defaults__ = _REAL['defaults']
            sys.exit = _REAL['sysexit']
        bc._should_have_exited[0] = False

    # ---- actions --------------------------------------------------------------
    def _go(self, cmd=None):
        prev = self.where
        self.where = self.co.resume(cmd)
        return prev

    def _send_ack(self, response, pid, job, fd):
        self.synq._writer.send((response, (job,)))

    def step(self, act):
        n = act['name']
        if n == 'Feed':
            j = act['j']
            self.inq._writer.send((bp.TASK, (j, None, task, (j,), {})))
            # parent-side handle for the handshake
            bp.job_counter = iter([j])
            refuse = bool(self.c.get('Refusals')) and j % 2 == 0
            self.jobs[j] = bp.ApplyResult(self.cache, None, send_ack=self._send_ack
                                          if self.c['Synack'] else None,
                                          accept_callback=_refusing if refuse else None)
        elif n == 'FeedSentinel':
            self.inq._writer.send(None)
        elif n == 'Tick':
            self.t += 1
        elif n == 'Cancel':
            self.jobs[act['j']]._cancel()
        elif n == 'ParentRecv':
            typ, args = self.outq.history[self.rd]
            self.rd += 1
            if typ == bp.ACK:
                job, i, t, pid, fd = args
                try:                      # as ResultHandler.on_ack calls it
                    self.jobs[job]._ack(i, t, pid, fd)
                except (KeyError, AttributeError):
                    pass
            elif typ == bp.READY:
                self.counter._v += 1
        elif n == 'Take':
            assert self.where == 'wait'
            nxt = pickle.loads(self.inq.items[0])
            self.cur = nxt[1][0] if nxt is not None else self.cur
            self._go()
        elif n == 'Syn':
            assert self.where == 'syn'
            self._go()
            ans = 'ACK'
            if self.where == 'wait':            # the loop went back for another job: refused
                self.nacked.append(self.cur)
                self.cur = 0
                ans = 'NACK'
            return dict(act, ans=ans)
        elif n == 'Finish':
            assert self.where == 'run'
            self.cur = 0
            self._go(('finish', act['kind']))
        elif n == 'Signal':
            at = {'wait': 'wait', 'syn': 'syn', 'run': 'run', 'ensure': 'ensure'}[self.where]
            if act.get('caught'):
                self._go('signal-caught')
            else:
                if self.where == 'run':
                    self.cur = 0
                self._go('signal')
            return dict(act, at=at)
        elif n in ('EnsureOk', 'EnsureSleep'):
            assert self.where == 'ensure'
            self._go()
        elif n == 'Exit':
            assert self.where == 'exiting'
            self._go()
        else:
            raise ValueError(n)

    # ---- projection -----------------------------------------------------------
    def _msg(self, m):
        typ, args = m
        if typ == bp.ACK:
            job, i, t, pid, fd = args
            which = 'none' if fd is None else 'syn' if (self.synq is not None and fd == self.synq._writer.fileno()) \
                else 'inq' if fd == self.inq._writer.fileno() else 'other'
            return {'t': 'ACK', 'j': job, 'pid': pid, 'time': int(round(t - CLOCK0)), 'fd': which}
        if typ == bp.READY:
            job, i, (ok, val), fd = args
            if ok:
                res = 'ok' if val == ('ok', job) else 'wrongvalue'
            else:
                exc = val.exception
                if isinstance(exc, _be.ExceptionWithTraceback):
                    exc = exc.exc
                res = {TaskError: 'err', TaskBase: 'baseerr', bp.MaybeEncodingError: 'encerr',
                       SystemExit: 'sysexit'}.get(type(exc), 'other:' + type(exc).__name__)
            return {'t': 'READY', 'j': job, 'res': res}
        if typ == bp.DEATH:
            return {'t': 'DEATH', 'pid': args[0], 'code': args[1]}
        return {'t': 'other'}

    def _code(self):
        f = sys._current_frames().get(self.co.thread.ident)
        while f is not None:
            if f.f_code.co_name == '__call__' and '_exitcode' in f.f_locals:
                v = f.f_locals['_exitcode'][0]
                return [] if v is None else [v]
            f = f.f_back
        return self._last_code

    _last_code = []

    def _completed(self):
        f = sys._current_frames().get(self.co.thread.ident)
        while f is not None:
            if f.f_code.co_name == 'workloop':
                return f.f_locals.get('completed', 0)
            f = f.f_back
        return None

    def project(self):
        comp = self._completed()
        if comp is None:          # the loop frame is gone: everything executed was counted
            comp = self._last_completed
        self._last_completed = comp
        pc = {'wait': 'wait', 'syn': 'syn', 'run': 'run', 'ensure': 'ensure',
              'exiting': 'exiting', 'gone': 'gone'}.get(self.where, str(self.where))
        inq = []
        for raw in self.inq.items:
            m = pickle.loads(raw)
            inq.append(0 if m is None else m[1][0])
        synq = []
        if self.synq is not None:
            for raw in self.synq.items:
                m = pickle.loads(raw)
                synq.append('NACK' if m[0] == bp.NACK else 'ACK')
        return {
            'pc': pc, 'cur': self.cur if pc in ('syn', 'run') else 0, 'completed': comp,
            'fed': len(self.jobs),
            'cancelled': sorted(j for j, r in self.jobs.items() if r._cancelled),
            'code': self._code_now(),
            'ret': [bp.EX_RECYCLE] if (pc == 'ensure' and self.by_return) else [],
            'inq': inq, 'synq': synq,
            'out': [self._msg(m) for m in self.outq.history],
            'rd': self.rd, 'counter': self.counter._v,
            'sleeps': self.sleeps,
            'status': list(self.status), 'onexit': self.onexit,
            'executed': list(self.executed), 'nacked': sorted(self.nacked),
            'termreq': bool(bc._should_have_exited[0]), 'now': self.t,
        }

    _last_completed = 0

    def _code_now(self):
        self._last_code = self._code()
        return self._last_code

    def normalize(self, st):
        st = dict(st)
        st['nacked'] = sorted(st.get('nacked', []))
        st['cancelled'] = sorted(st.get('cancelled', []))
        return st
