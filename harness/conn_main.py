"""Driver process for C13's real-kernel part: real pipes and socket pairs between two
processes, message sizes around every threshold of the framing code (0, 1, 16384, 16385,
more than the pipe buffer, a megabyte), a slow reader (so that the kernel fragments), every
receive API, and a sender that is killed in the middle of a message.  One record per
scenario; judged by ConnObs.tla."""
import array
import json
import os
import signal
import sys
import time

import billiard
from billiard.exceptions import BufferTooShort

from harness import targets
from harness.conn import payload

SCALE = float(os.environ.get('VERIF_TIME_SCALE', '1'))


def exchange(kind, sizes, mode, kill_after=None):
    ctx = billiard.get_context('fork')
    if kind in ('pipe', 'pipe_sig'):
        r, w = ctx.Pipe(duplex=False)
    elif kind == 'socket_dt':
        # a process-wide default socket timeout (an application's own choice) must not leak into the
        # connection: both ends block as every other connection does
        import socket
        socket.setdefaulttimeout(30)
        try:
            r, w = ctx.Pipe(duplex=True)
        finally:
            socket.setdefaulttimeout(None)
    else:
        r, w = ctx.Pipe(duplex=True)          # a socket pair
    sig = kind.endswith('_sig')
    p = ctx.Process(target=targets.conn_sender, args=(w, sizes, kill_after is not None, sig))
    p.daemon = True
    p.start()
    w.close()
    results = []
    deadline = time.time() + 60 * SCALE
    killed = False
    for m, n in enumerate(sizes, 1):
        want = payload(m, n)
        if sig and n > 65536:
            time.sleep(0.3)                   # the writer blocks inside a big message; signals hit it there
        if kill_after is not None and m == kill_after + 1 and not killed:
            time.sleep(0.4)                   # the sender is blocked inside message m (pipe full)
            os.kill(p.pid, signal.SIGKILL)
            p.join(10)
            killed = True
        if not r.poll(max(0.1, deadline - time.time())):
            results.append([m, 'hung'])
            break
        api = (m + (0 if mode == 'mixed' else 1)) % 3 if mode != 'bytes' else 0
        try:
            if api == 0:
                got = r.recv_bytes()
                out = 'ok' if got == want else 'corrupt'
            elif api == 1:
                got = r.recv_bytes(n + 1)
                out = 'ok' if got == want else 'corrupt'
            else:
                room = n + 8 - (n % 4)
                buf = bytearray(b'\xAA' * room) if m % 2 else array.array('I', b'\xAA' * room)
                k = r.recv_bytes_into(buf, 4)
                raw = bytes(buf)
                whole = n if m % 2 else n - n % 4
                out = 'ok' if (k == n and raw[4:4 + whole] == want[:whole] and raw[:4] == b'\xAA' * 4) \
                    else 'corrupt'
            if m % 5 == 0:
                time.sleep(0.02)              # a slow reader: the writer runs ahead, reads fragment
        except EOFError:
            out = 'eof'
        except BufferTooShort:
            out = 'tooshort'
        except OSError as exc:
            s = str(exc)
            out = 'eof_in_message' if 'end of file during message' in s else 'oserror'
        results.append([m, out])
        if out != 'ok':
            break
    tail = 'none'
    if results and results[-1][1] == 'ok' and len(results) == len(sizes):
        # after the last message: the writing end is closed -> EOFError, nothing else
        try:
            if r.poll(20 * SCALE):
                r.recv_bytes()
                tail = 'extra'
            else:
                tail = 'hung'
        except EOFError:
            tail = 'eof'
        except OSError:
            tail = 'oserror'
    if p.is_alive():
        p.join(5)
    if p.is_alive():
        p.terminate()
    return {'kind': kind, 'mode': mode, 'n': len(sizes), 'kill_after': kill_after or 0,
            'killed': kill_after is not None,
            'results': results, 'tail': tail}


def main():
    out, tier = sys.argv[1], sys.argv[2]
    thorough = tier == 'thorough'
    sizes = [0, 1, 5, 16383, 16384, 16385, 70000, 3, 65536, 200000, 0, 1048576, 7]
    if thorough:
        sizes = sizes + [4 * 1048576, 2, 16388, 131072, 1]
    res = []
    for kind in ('pipe', 'socket'):
        for mode in ('bytes', 'mixed', 'mixed2'):
            res.append(exchange(kind, sizes, mode))
        res.append(exchange(kind, [10, 20, 1048576, 5], 'bytes', kill_after=2))
        res.append(exchange(kind, [1048576, 5], 'mixed', kill_after=0))
    res.append(exchange('socket_dt', sizes, 'mixed'))
    for kind in ('pipe_sig', 'socket_sig'):
        res.append(exchange(kind, [5, 1048576, 0, 300000, 7, 2 * 1048576, 1], 'bytes'))
    with open(out + '.tmp', 'w') as fh:
        json.dump(res, fh)
    os.replace(out + '.tmp', out)
    sys.stdout.flush()
    os._exit(0)


if __name__ == '__main__':
    main()
