"""Binding A for MgrSrv.tla: the real billiard.managers.Server, its request handlers
(create / incref / decref) each on a baton-passing thread, the server mutex replaced by a
cooperative re-entrant lock: reaching the mutex and leaving the critical section are the
scheduling points, so whatever a handler still does after it has released the mutex is a step of
its own that other handlers may precede."""
import logging
import os
import shutil
import tempfile
import threading

import billiard.managers as bm
import billiard.util as butil
from lib.cothread import Co

butil.get_logger().addHandler(logging.NullHandler())
butil.get_logger().propagate = False


class Shared:
    """the referent every `create` hands out"""

    def ping(self):
        return 'pong'


class CoRLock:
    def __init__(self, ad):
        self.ad = ad
        self.owner = None
        self.depth = 0

    def _co(self):
        cur = threading.current_thread()
        for co in self.ad.cos:
            if co is not None and co.thread is cur:
                return co
        return None

    def acquire(self, blocking=True, timeout=-1):
        cur = threading.current_thread()
        if self.owner is cur:
            self.depth += 1
            return True
        co = self._co()
        if co is not None:
            co.yield_('atlock')
        if self.owner is not None:
            raise AssertionError('critical sections overlap')
        self.owner, self.depth = cur, 1
        return True

    def release(self):
        if self.owner is not threading.current_thread():
            raise RuntimeError('cannot release un-acquired lock')
        self.depth -= 1
        if self.depth == 0:
            self.owner = None
            co = self._co()
            if co is not None:
                co.yield_('released')

    def __enter__(self):
        self.acquire()
        return self

    def __exit__(self, *exc):
        self.release()


class MgrSrvAdapter:
    def __init__(self, consts):
        self.progs = consts['Progs']
        self.cos = []
        self.dir = None

    def reset(self, st):
        self.dir = tempfile.mkdtemp(prefix='verif-mgrsrv-', dir='/var/tmp')
        self.obj = Shared()
        registry = {'shared': (lambda: self.obj, None, None, None)}
        self.server = bm.Server(registry, os.path.join(self.dir, 's'), b'key', 'pickle')
        self.server.mutex = CoRLock(self)
        self.ident = '%x' % id(self.obj)
        n = len(self.progs)
        self.pc = ['idle'] * n
        self.ip = [0] * n
        self.held = [0] * n
        self.cos = [None] * n
        for t in range(n):
            self.cos[t] = Co(self._body(t), name='handler-%d' % (t + 1))
            self.cos[t].start()

    def _body(self, t):
        def run():
            srv = self.server
            for op in self.progs[t]:
                self.cos[t].yield_('idle')
                if op == 'create':
                    ident, _ = srv.create(None, 'shared')
                    if ident != self.ident:
                        raise AssertionError('create returned another id')
                elif op == 'incref':
                    srv.incref(None, self.ident)
                else:
                    srv.decref(None, self.ident)
            self.cos[t].yield_('idle')
        return run

    def step(self, act):
        t = act['t'] - 1
        co = self.cos[t]
        msg = co.resume()
        if co.crash is not None:
            raise co.crash
        n = act['name']
        if n == 'Section':
            op = self.progs[t][self.ip[t]]
            self.held[t] += -1 if op == 'decref' else 1
        elif n == 'Return':
            self.ip[t] += 1
        self.pc[t] = msg if isinstance(msg, str) else 'crashed'

    def project(self):
        s = self.server
        return {'pc': list(self.pc), 'ip': list(self.ip), 'held': list(self.held),
                'refcount': s.id_to_refcount.get(self.ident, 0),
                # the entry must hold the referent itself (not a wiped placeholder)
                'present': s.id_to_obj.get(self.ident, (None,))[0] is self.obj}

    def quiesce(self):
        """after a divergence: handlers that are in the middle of a request run on to its end"""
        for _ in range(16):
            busy = [t for t, co in enumerate(self.cos)
                    if co is not None and not co.finished and self.pc[t] not in ('idle', 'crashed')]
            if not busy:
                return
            t = busy[0]
            msg = self.cos[t].resume()
            if self.cos[t].crash is not None:
                raise self.cos[t].crash
            self.pc[t] = msg if isinstance(msg, str) else 'crashed'
            yield {'name': 'Return', 't': t + 1}, self.project()

    def close(self):
        for co in self.cos:
            try:
                if co is not None:
                    co.destroy()
            except Exception:
                pass
        try:
            self.server.listener.close()
        except Exception:
            pass
        if self.dir:
            shutil.rmtree(self.dir, ignore_errors=True)
