"""Binding A for EInfo.tla: real exceptions raised at real stack depths, the real
ExceptionInfo / Traceback, real pickle round trips, the standard traceback module."""
import pickle
import sys
import traceback

import billiard.einfo as be


class Base0(BaseException):
    pass


class Nested(Exception):
    def __init__(self, a, b):
        super().__init__(a, b)
        self.a, self.b = a, b


def _raise(kind):
    if kind == 'exc0':
        raise KeyError()
    if kind == 'exc1':
        raise ValueError(1)
    if kind == 'base':
        raise Base0('stop', 2)
    if kind == 'nested':
        raise Nested(('x', (1, 2)), {'k': [1, 2, 3]})
    if kind == 'encerr':      # what a worker raises for a result it could not send
        import billiard.pool as bp
        raise bp.MaybeEncodingError(TypeError("cannot pickle '_thread.lock' object"), [1, {'k': 'v'}])
    raise RuntimeError(kind)


def raising_frame_d(n, kind):          # n more frames below this one
    if n <= 1:
        _raise_here(kind)
    raising_frame_d(n - 1, kind)


def _raise_here(kind):
    _raise(kind)


def capture(depth, kind):
    """an ExceptionInfo whose traceback has exactly `depth` frames"""
    # frames: capture (1) + raising_frame_d x (depth - 3) + _raise_here + _raise
    try:
        if depth == 1:
            raise {'exc0': KeyError, 'exc1': ValueError}.get(kind, RuntimeError)(*_args(kind))
        if depth == 2:
            _raise(kind)
        else:
            raising_frame_d(depth - 3, kind) if depth > 3 else _raise_here(kind)
    except BaseException:
        return be.ExceptionInfo()


def _args(kind):
    return {'exc0': (), 'exc1': (1,)}.get(kind, (kind,))


def _unwrap(exc):
    return exc.exc if isinstance(exc, be.ExceptionWithTraceback) else exc


def _chain(tb):
    out = []
    while tb is not None:
        out.append((tb.tb_frame.f_code.co_name, tb.tb_lineno))
        tb = tb.tb_next
    return out


class EInfoAdapter:
    def __init__(self, consts):
        self.c = consts

    def reset(self, st):
        self._old = be.Traceback.__init__.__defaults__
        be.Traceback.__init__.__defaults__ = (self.c['Limit'], 0)
        self.ei = None
        self.first = None
        self.st = {'phase': 'none', 'd': 0, 'kind': '', 'frames': 0, 'trunc': False,
                   'npickle': 0, 'formatted': False, 'same': True}
        self._old_limit = sys.getrecursionlimit()

    def close(self):
        be.Traceback.__init__.__defaults__ = self._old

    def _sig(self, ei):
        exc = _unwrap(ei.exception)
        return (ei.type, type(exc), exc.args, ei.traceback, tuple(_chain(ei.tb)))

    def step(self, act):
        n = act['name']
        st = self.st
        if n == 'Capture':
            d, kind = act['d'], act['kind']
            need = d + 60
            if need > sys.getrecursionlimit():
                sys.setrecursionlimit(need + 100)
            try:
                self.ei = capture(d, kind)
            finally:
                sys.setrecursionlimit(self._old_limit)
            try:
                self.first = self._sig(self.ei)
                chain = _chain(self.ei.tb)
            except Exception:
                # the record's traceback object cannot even be walked
                self.first = None
                st.update(phase='have', d=d, kind=kind, frames=min(d, self.c['Limit'] + 2),
                          trunc=d > self.c['Limit'] + 2, same=False)
                return
            trunc = bool(chain) and chain[-1][0] == '[rest of traceback truncated]'
            real = chain[:-1] if trunc else chain
            st.update(phase='have', d=d, kind=kind, frames=len(real), trunc=trunc)
            # data clauses: original type and args; the text names the raising frame
            exc = _unwrap(self.ei.exception)
            want_fn = '_raise' if d >= 2 else 'capture'
            ok = (self.ei.type is type(exc)) and ((', in %s\n' % want_fn) in self.ei.traceback) \
                and ('Traceback (most recent call last)' in self.ei.traceback) \
                and str(self.ei) == self.ei.traceback
            if kind in ('exc0', 'exc1'):
                ok = ok and exc.args == _args(kind)
            if not trunc and d >= 2:
                ok = ok and real[-1][0] == ('_raise' if d >= 2 else 'capture')
            st['same'] = bool(ok)
        elif n == 'Pickle':
            st['npickle'] += 1
            st['formatted'] = False
            try:
                self.ei = pickle.loads(pickle.dumps(self.ei))
                st['same'] = st['same'] and self._sig(self.ei) == self.first
            except Exception:
                st['same'] = False
        elif n == 'Format':
            exc = self.ei.exception
            try:
                text = ''.join(traceback.format_exception(self.ei.type, exc, self.ei.tb))
                chain = _chain(self.ei.tb)
                ok = all(('in %s' % fn) in text or fn.startswith('[rest') for fn, _ in chain)
                ok = ok and traceback.extract_tb(self.ei.tb) is not None
            except Exception:
                ok = False            # the standard traceback module cannot format the record
            st['formatted'] = True
            st['same'] = st['same'] and ok
        else:
            raise ValueError(n)

    def project(self):
        return dict(self.st)
