"""Binding A for Sem.tla: the real billiard.pool.LaxBoundedSemaphore."""
import threading
import time

from billiard.pool import LaxBoundedSemaphore
from lib.replay import Unrealizable

SETTLE_S = 5.0


class _GatedCond:
    """Stands in for the semaphore's condition object.  `with cond:` entered by the
    gated thread first parks at a gate the driver opens; everything else is
    delegated, so the real condition/lock semantics are unchanged."""

    def __init__(self, cond):
        self._c = cond
        self.gated_thread = None
        self.at_gate = threading.Event()
        self.open = threading.Event()

    def __enter__(self):
        if threading.current_thread() is self.gated_thread:
            self.at_gate.set()
            self.open.wait()
            self.open.clear()
        return self._c.__enter__()

    def __exit__(self, *a):
        return self._c.__exit__(*a)

    def __getattr__(self, n):
        return getattr(self._c, n)


class SemAdapter:
    def reset(self, st):
        self.s = LaxBoundedSemaphore(st['bound'])
        for _ in range(st['bound'] - st['value']):
            assert self.s.acquire(False)
        self.shrinkers = []
        self.real_cond = self.s._cond
        self.clear_thread = None
        self.clr = 'idle'
        self.prechecked = False
        self.rel = 'idle'
        self.rel_thread = None

    # -- helpers -----------------------------------------------------------
    def _alive(self):
        self.shrinkers = [t for t in self.shrinkers if t.is_alive()]
        return len(self.shrinkers)

    def _settle(self):
        t0 = time.time()
        while True:
            n = self._alive()
            if n == len(self.real_cond._waiters):
                time.sleep(0)
                if self._alive() == len(self.real_cond._waiters) == n:
                    return
            if time.time() - t0 > SETTLE_S:
                raise RuntimeError('semaphore threads did not settle')
            time.sleep(0.0005)

    def _wait_clear_thread(self):
        """wait until the clear() thread is parked at the gate or has finished"""
        t0 = time.time()
        g = self.s._cond
        while True:
            if g.at_gate.is_set():
                return 'gate'
            if not self.clear_thread.is_alive():
                self.clear_thread = None
                return 'done'
            if time.time() - t0 > SETTLE_S:
                raise RuntimeError('clear() thread neither parked nor finished')
            time.sleep(0.0005)

    # -- actions -------------------------------------------------------------
    def step(self, act):
        n = act['name']
        s = self.s
        ret = None
        if n == 'Acquire':
            ret = {'name': 'Acquire', 'ret': bool(s.acquire(False))}
        elif n == 'Release':
            s.release()
        elif n == 'Grow':
            s.grow()
        elif n == 'Shrink':
            t = threading.Thread(target=s.shrink, daemon=True)
            self.shrinkers.append(t)
            t.start()
        elif n == 'Clear':
            s.clear()
        elif n == 'ReleaseArrive':
            # a second thread calls release(); it is parked where it asks for the lock
            g = _GatedCond(self.real_cond)
            s._cond = g
            t = threading.Thread(target=s.release, daemon=True)
            g.gated_thread = t
            self.rel_thread = t
            t.start()
            t0 = time.time()
            while not g.at_gate.is_set():
                if not t.is_alive():
                    break                 # returned without ever asking for the lock
                if time.time() - t0 > SETTLE_S:
                    raise RuntimeError('release() thread neither parked nor finished')
                time.sleep(0.0005)
            self.rel = 'parked'
            return None
        elif n == 'ReleaseDo':
            g = s._cond
            t = self.rel_thread
            if t is None:
                raise RuntimeError('no release() call in progress')
            if isinstance(g, _GatedCond):
                g.at_gate.clear()
                g.open.set()
            t.join(SETTLE_S)
            if t.is_alive():
                raise RuntimeError('parked release() did not finish')
            s._cond = self.real_cond
            self.rel_thread = None
            self.rel = 'idle'
            self._settle()
            return None
        elif n == 'ClearCheck':
            if self.clear_thread is None:
                g = _GatedCond(self.real_cond)
                s._cond = g
                t = threading.Thread(target=s.clear, daemon=True)
                g.gated_thread = t
                self.clear_thread = t
                t.start()
                where = self._wait_clear_thread()
                if where != 'gate':
                    # clear() returned without touching the lock
                    self.clr = 'idle'
                    return None
            elif not self.prechecked:
                raise RuntimeError('harness: clear thread in unexpected position')
            self.prechecked = False
            self.clr = 'inc'
            return None
        elif n == 'ClearInc':
            if self.clear_thread is None:
                raise RuntimeError('no clear() call in progress')
            g = s._cond
            g.at_gate.clear()
            g.open.set()
            where = self._wait_clear_thread()
            self.clr = 'idle'
            self.prechecked = (where == 'gate')
            self._settle()
            return None
        else:
            raise ValueError(n)
        self._settle()
        if self.prechecked and not (s._value < s._initial_value):
            # the parked clear() has already evaluated its loop test; the spec path
            # evaluates it later with a different outcome: not forceable
            raise Unrealizable()
        return ret

    def project(self):
        return {'value': self.s._value, 'bound': self.s._initial_value,
                'pend': self._alive(), 'clr': self.clr, 'rel': self.rel}

    def quiesce(self):
        return iter(())

    def close(self):
        # let blocked helper threads finish
        try:
            g = self.s._cond
            if isinstance(g, _GatedCond):
                g.open.set()
            for _ in range(len(self.shrinkers) + 2):
                self.s._initial_value += 1
                self.s.release()
        except Exception:
            pass
