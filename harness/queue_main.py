"""Driver process for C16: real producer / consumer processes and threads on real billiard
queues; writes the recorded histories as JSON."""
import json
import os
import sys
import threading
import time

import billiard

from harness import targets


SCALE = float(os.environ.get('VERIF_TIME_SCALE', '1'))
STUCK = []


def collect(conns, whos, bound):
    """drain the parties' event streams until each said 'done' or the bound is reached"""
    events, bad, open_ = [], 0, dict(enumerate(conns))
    deadline = time.time() + bound
    while open_ and time.time() < deadline:
        idle = True
        for i, r in list(open_.items()):
            try:
                while r.poll(0):
                    idle = False
                    tag, x = r.recv()
                    if tag == 'ev':
                        events.append(x)
                    else:
                        bad += x
                        del open_[i]
                        break
            except (EOFError, OSError):
                events.append({'k': 'party_died', 'who': whos[i], 'p': 0, 'n': 0, 't0': 0, 't1': 0, 'to': 0})
                del open_[i]
        if idle:
            time.sleep(0.01)
    for i in open_:
        events.append({'k': 'party_hung', 'who': whos[i], 'p': 0, 'n': 0, 't0': 0, 't1': 0, 'to': 0})
    return events, bad


def _rebase(events):
    ts = [e['t0'] for e in events if e['t0']]
    base = min(ts) if ts else 0
    for e in events:
        if e['t0']:
            e['t0'] -= base
            e['t1'] -= base
    events.sort(key=lambda e: (e['t1'], e['t0']))


def exchange(kind, method, nprod, ncons, per, maxsize, size, timeout=None, nowait=False,
             use_threads=False, delay=0.0, cons_in_parent=False, signals=False):
    ctx = billiard.get_context(method)
    if kind == 'Queue':
        q = ctx.Queue(maxsize)
    elif kind == 'JoinableQueue':
        q = ctx.JoinableQueue(maxsize)
    else:
        q = ctx.SimpleQueue()
        maxsize = 0
    total = nprod * per
    share = [total // ncons + (1 if i < total % ncons else 0) for i in range(ncons)]
    procs, conns, whos = [], [], []
    Proc = threading.Thread if use_threads else ctx.Process
    CProc = threading.Thread if (use_threads or cons_in_parent) else ctx.Process
    for c in range(ncons):
        r, w = ctx.Pipe(duplex=False)
        whos.append(100 + c)
        t = CProc(target=targets.q_consumer,
                 args=(q, 100 + c, share[c], size, w, timeout, kind == 'JoinableQueue', delay))
        t.daemon = True
        t.start()
        procs.append(t)
        conns.append(r)
    if timeout is not None:
        time.sleep(timeout * 1.5)          # let some timed gets expire on an empty queue
    if cons_in_parent:
        time.sleep(0.3)                    # the consumers are inside get() before anything is put
    for p in range(nprod):
        r, w = ctx.Pipe(duplex=False)
        whos.append(p + 1)
        t = Proc(target=targets.q_producer, args=(q, p + 1, per, size, w, nowait, signals))
        t.daemon = True
        t.start()
        procs.append(t)
        conns.append(r)
    events, bad = collect(conns, whos, (12 if STUCK else 40) * SCALE)
    stuck = any(e['k'] in ('party_hung', 'party_died') for e in events)
    if stuck:
        STUCK.append(1)      # later scenarios wait less: one stuck party already decides the run
    if kind == 'JoinableQueue' and not stuck:
        t0 = targets._us()
        done = []
        th = threading.Thread(target=lambda: (q.join(), done.append(1)), daemon=True)
        th.start()
        th.join(20 * SCALE)
        events.append({'k': 'join' if done else 'join_hung', 'who': 0, 'p': 0, 'n': 0, 't0': t0,
                       't1': targets._us(), 'to': 0})
    if not stuck:
        for t in procs:
            t.join(10)
    _rebase(events)
    return {'name': '%s/%s/%dx%d/max%d/size%d%s' % (kind, method, nprod, ncons, maxsize, size,
                                                    '/signals' if signals else
                                                    '/threads' if use_threads else
                                                    '/consumer-in-parent' if cons_in_parent else ''),
            'maxsize': maxsize, 'drained': True, 'settle': 300000, 'corrupt': bad, 'events': events}


def join_early():
    """JoinableQueue.join must not return while task_done calls are outstanding"""
    ctx = billiard.get_context('fork')
    q = ctx.JoinableQueue()
    ev = []
    for k in (1, 2, 3):
        t0 = targets._us()
        q.put((1, k, b''))
        ev.append({'k': 'put', 'who': 1, 'p': 1, 'n': k, 't0': t0, 't1': targets._us(), 'to': 0})
    done = []

    def joiner():
        t0 = targets._us()
        q.join()
        done.append({'k': 'join', 'who': 0, 'p': 0, 'n': 0, 't0': t0, 't1': targets._us(), 'to': 0})
    th = threading.Thread(target=joiner, daemon=True)
    th.start()
    for k in (1, 2, 3):
        t0 = targets._us()
        item = q.get()
        ev.append({'k': 'get', 'who': 100, 'p': item[0], 'n': item[1], 't0': t0, 't1': targets._us(), 'to': 0})
        time.sleep(0.05)
        t0 = targets._us()
        q.task_done()
        ev.append({'k': 'task_done', 'who': 100, 'p': 1, 'n': k, 't0': t0, 't1': targets._us(), 'to': 0})
    th.join(10)
    ev += done or [{'k': 'join_hung', 'who': 0, 'p': 0, 'n': 0, 't0': 0, 't1': 0, 'to': 0}]
    try:
        q.task_done()
        ev.append({'k': 'extra_task_done_accepted', 'who': 0, 'p': 0, 'n': 0, 't0': 0, 't1': 0, 'to': 0})
    except ValueError:
        pass
    base = min(e['t0'] for e in ev if e['t0'])
    for e in ev:
        if e['t0']:
            e['t0'] -= base
            e['t1'] -= base
    ev.sort(key=lambda e: (e['t1'], e['t0']))
    return {'name': 'JoinableQueue/join-early', 'maxsize': 0, 'drained': True, 'settle': 300000,
            'corrupt': 0, 'events': ev}


def join_many():
    """several processes blocked in JoinableQueue.join(): all of them return once the last
    task_done has been made"""
    ctx = billiard.get_context('fork')
    q = ctx.JoinableQueue()
    ev = []
    for k in (1, 2):
        t0 = targets._us()
        q.put((1, k, b''))
        ev.append({'k': 'put', 'who': 1, 'p': 1, 'n': k, 't0': t0, 't1': targets._us(), 'to': 0})
    conns, whos, ps = [], [], []
    for j in range(3):
        r, w = ctx.Pipe(duplex=False)
        p = ctx.Process(target=targets.q_joiner, args=(q, 200 + j, w))
        p.daemon = True
        p.start()
        w.close()
        conns.append(r)
        whos.append(200 + j)
        ps.append(p)
    time.sleep(0.5 * SCALE)                # the joiners are inside join()
    for k in (1, 2):
        t0 = targets._us()
        item = q.get()
        ev.append({'k': 'get', 'who': 100, 'p': item[0], 'n': item[1], 't0': t0, 't1': targets._us(), 'to': 0})
        t0 = targets._us()
        q.task_done()
        ev.append({'k': 'task_done', 'who': 100, 'p': 1, 'n': k, 't0': t0, 't1': targets._us(), 'to': 0})
    more, _ = collect(conns, whos, 10 * SCALE)
    ev += [e if e['k'] != 'party_hung' else dict(e, k='join_hung') for e in more]
    for p in ps:
        if p.is_alive():
            p.terminate()
    _rebase(ev)
    return {'name': 'JoinableQueue/join-many', 'maxsize': 0, 'drained': True, 'settle': 300000,
            'corrupt': 0, 'events': ev}


def main():
    out, tier = sys.argv[1], sys.argv[2]
    thorough = tier == 'thorough'
    hs = []
    big = 200000          # larger than the 64 KiB pipe buffer
    per = 12 if thorough else 6
    for method in (('fork', 'spawn', 'forkserver') if thorough else ('fork', 'spawn')):
        hs.append(exchange('Queue', method, 2, 2, per, 1, 10))
        hs.append(exchange('Queue', method, 3, 2, per, 2, big))
        hs.append(exchange('JoinableQueue', method, 2, 2, per, 3, 100, delay=0.002))
        hs.append(exchange('SimpleQueue', method, 2, 2, per, 0, big))
    hs.append(exchange('Queue', 'fork', 2, 1, per, 2, 10, nowait=True))
    hs.append(exchange('Queue', 'fork', 1, 2, per, 1, 10, timeout=0.05))
    hs.append(exchange('Queue', 'fork', 2, 2, per, 2, 1000, use_threads=True))
    hs.append(exchange('Queue', 'spawn', 2, 1, per, 2, 10, cons_in_parent=True))
    hs.append(exchange('JoinableQueue', 'spawn', 1, 1, per, 2, 10, cons_in_parent=True))
    # refused puts on a bounded JoinableQueue: a put that raised Full is not an item (join must still return)
    hs.append(exchange('JoinableQueue', 'fork', 2, 1, per, 2, 10, nowait=True, delay=0.004))
    # a producer that keeps being interrupted by a handled signal while its write() is blocked on a
    # full pipe (slow consumer): short writes must be completed
    hs.append(exchange('SimpleQueue', 'fork', 1, 1, per, 0, big, delay=0.03, signals=True))
    hs.append(join_early())
    hs.append(join_many())
    with open(out + '.tmp', 'w') as fh:
        json.dump(hs, fh)
    os.replace(out + '.tmp', out)
    sys.stdout.flush()
    os._exit(0)


if __name__ == '__main__':
    main()
