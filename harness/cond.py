"""Binding A for Cond.tla: the real billiard.synchronize.Condition / Event running on
cooperative semaphores.  Every operation on an underlying semaphore is a yield point: the
TLC behaviour decides which thread performs its next operation and which blocked timed
acquire times out."""
import threading

from billiard.synchronize import Condition, Event
from lib.cothread import Co
from lib.replay import Unrealizable


class _SemLockView:
    def __init__(self, sem):
        self.s = sem

    def _is_mine(self):
        return self.s.owner is threading.current_thread()

    def _count(self):
        return self.s.depth if self.s.owner is threading.current_thread() else 0

    def _get_value(self):
        return self.s.value


class CoSem:
    def __init__(self, ctx, name, value, kind='sem'):
        self.ctx, self.name, self.value, self.kind = ctx, name, value, kind
        self.owner = None
        self.depth = 0
        self._semlock = _SemLockView(self)

    def acquire(self, block=True, timeout=None):
        h = self.ctx.h
        co = h.co_of()
        if co is None:              # driver thread (set-up): no scheduling
            return self._take()
        cmd = co.yield_((self.name, 'acq' if block else 'tryacq', timeout is not None))
        if cmd == 'timeout':
            h.last_ok = False
            return False
        ok = self._take()
        if block and not ok:
            raise RuntimeError('scheduled a blocking acquire of %s at value 0' % self.name)
        h.last_ok = ok
        return ok

    def _take(self):
        if self.kind == 'rlock' and self.owner is threading.current_thread():
            self.depth += 1
            return True
        if self.value > 0:
            self.value -= 1
            if self.kind in ('lock', 'rlock'):
                self.owner = threading.current_thread()
                self.depth = 1
            return True
        return False

    def release(self):
        h = self.ctx.h
        co = h.co_of()
        if co is not None:
            co.yield_((self.name, 'rel', False))
        if self.kind in ('lock', 'rlock'):
            self.depth -= 1
            if self.depth > 0:
                h.last_ok = True
                return
            self.owner = None
        self.value += 1
        h.last_ok = True

    def __enter__(self):
        return self.acquire()

    def __exit__(self, *a):
        self.release()


class CoCtx:
    def __init__(self, h):
        self.h = h
        self.names = iter(['sl', 'wk', 'ws', 'flag', 'x1', 'x2'])
        self.sems = {}

    def Lock(self):
        s = self.sems['lock'] = CoSem(self, 'lock', 1, 'lock')
        return s

    def RLock(self):
        s = self.sems['lock'] = CoSem(self, 'lock', 1, 'rlock')
        return s

    def Semaphore(self, value=1):
        n = next(self.names)
        s = self.sems[n] = CoSem(self, n, value)
        return s

    def Condition(self, lock=None):
        return Condition(lock, ctx=self)


class CondAdapter:
    def co_of(self):
        cur = threading.current_thread()
        for co in self.cos.values():
            if co.thread is cur:
                return co
        return None

    def reset(self, st):
        self.cos = {}
        self.ctx = CoCtx(self)
        self.ev = Event(ctx=self.ctx)
        self.cond = self.ev._cond
        self.prog = {int(t) if not isinstance(t, int) else t: list(p)
                     for t, p in self._progs(st['prog']).items()}
        self.left = {t: list(p) for t, p in self.prog.items()}
        self.ret = {t: [] for t in self.prog}
        self.hist = {t: [] for t in self.prog}
        self.err = ''
        self.last_ok = True
        self.pending = {}
        for t in sorted(self.prog):
            co = Co(self._body(t), name='t%d' % t)
            self.cos[t] = co
        for t in sorted(self.prog):
            self.pending[t] = self.cos[t].start()

    @staticmethod
    def _progs(p):
        if isinstance(p, dict):
            return {int(k): v for k, v in p.items()}
        return {i + 1: v for i, v in enumerate(p)}

    def _body(self, t):
        def run():
            cond, ev = self.cond, self.ev
            for op in self.prog[t]:
                if op in ('wait', 'twait'):
                    with cond:
                        r = cond.wait(None if op == 'wait' else 1.0)
                elif op == 'notify':
                    with cond:
                        cond.notify()
                    r = True
                elif op == 'notify_all':
                    with cond:
                        cond.notify_all()
                    r = True
                elif op == 'set':
                    ev.set()
                    r = True
                elif op == 'clear':
                    ev.clear()
                    r = True
                elif op == 'is_set':
                    r = ev.is_set()
                elif op in ('ewait', 'etwait'):
                    r = ev.wait(None if op == 'ewait' else 1.0)
                else:
                    raise ValueError(op)
                self.finished_op = (t, bool(r))
                self.left[t].pop(0)
                self.ret[t].append(bool(r))
                self.hist[t] = None
        return run

    def close(self):
        for co in self.cos.values():
            try:
                co.destroy()
            except Exception:
                pass

    free = False

    def set_free(self):
        """after a divergence: the schedule (which thread moves) is still the behaviour's, what
        the thread does is whatever the implementation is about to do"""
        self.free = True

    def _runnable(self, t):
        """None if thread t cannot move, else the command that lets it take its pending step"""
        co = self.cos[t]
        pend = self.pending[t]
        if co.finished or not isinstance(pend, tuple) or pend[0] == 'crashed':
            return None
        sem, op, timed = pend
        if op != 'acq':
            return 'go'
        s = self.ctx.sems[sem]
        if s.value > 0 or (s.kind == 'rlock' and s.owner is co.thread):
            return 'go'
        return 'timeout' if timed else None

    def quiesce(self):
        """let every thread run on (round robin) until nobody can move"""
        out = []
        moved = True
        n = 0
        while moved and n < 400:
            moved = False
            for t in sorted(self.cos):
                if self._runnable(t) is None:
                    continue
                sem, op, _ = self.pending[t]
                a = self.step({'name': 'Step', 't': t, 'sem': sem, 'op': op, 'ok': True})
                out.append((a, self.project()))
                moved = True
                n += 1
        return out

    def step(self, act):
        t = act['t']
        co = self.cos[t]
        pend = self.pending[t]
        if self.free:
            cmd = self._runnable(t)
            if cmd is None:
                raise Unrealizable('thread %d cannot move' % t)
            sem, op, timed = pend
            act = dict(act, sem=sem, op=op)
        else:
            if co.finished or not isinstance(pend, tuple) or pend[0] == 'crashed':
                raise AssertionError('thread %d has nothing to do: %r' % (t, pend))
            sem, op, timed = pend
            if (sem, op) != (act['sem'], act['op']):
                raise AssertionError('thread %d is about to %s %s, the specification says %s %s'
                                     % (t, op, sem, act['op'], act['sem']))
            cmd = 'go'
            if act['op'] == 'acq' and not act['ok']:
                if not timed:
                    raise AssertionError('untimed acquire cannot time out')
                cmd = 'timeout'
        self.finished_op = None
        if self.hist[t] is None:
            self.hist[t] = []
        h = self.hist[t]
        self.pending[t] = co.resume(cmd)
        ok = self.last_ok
        if self.hist[t] is None:
            self.hist[t] = []          # the call returned during this step
        else:
            h.append([act['sem'], act['op'], ok])
        if co.finished and co.crash is not None:
            if isinstance(co.crash, AssertionError):
                self.err = 'assert'
            else:
                raise co.crash
        return dict(act, ok=ok)

    def project(self):
        s = self.ctx.sems
        lock = s['lock']
        holder = 0
        for t, co in self.cos.items():
            if lock.owner is co.thread:
                holder = t
        ts = sorted(self.prog)
        pend = []
        for t in ts:
            p = self.pending[t]
            if self.cos[t].finished or not isinstance(p, tuple) or p[0] == 'crashed':
                pend.append(['none', 'none', False])
            else:
                pend.append([p[0], p[1], bool(p[2])])
        return {'prog': [self.left[t] for t in ts],
                'hist': [self.hist[t] or [] for t in ts], 'pend': pend,
                'lock': holder, 'sl': s['sl'].value, 'wk': s['wk'].value, 'ws': s['ws'].value,
                'flag': s['flag'].value, 'ret': [self.ret[t] for t in ts],
                'err': '' if not self.err else 'assert'}

    def normalize(self, st):
        st = dict(st)
        if st.get('err'):
            st['err'] = 'assert'
        return st
