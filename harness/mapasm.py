"""Binding A for MapAsm.tla: the real Pool._map_async / imap / imap_unordered (chunk
arithmetic, task generators), mapstar / starmapstar, ResultHandler.on_ack / on_ready,
MapResult, IMapIterator, IMapUnorderedIterator -- with real values and real pickling of
every result message."""
import pickle
import queue

import billiard.pool as bp
from billiard.common import restart_state
from billiard.einfo import ExceptionInfo, RemoteTraceback
from billiard.exceptions import TimeoutError as BTimeout

import logging
import billiard.util as _bu
_bu.get_logger().addHandler(logging.NullHandler())
_bu.get_logger().propagate = False

FAILS = set()


class BadInput(ValueError):
    pass


def f(x):
    tag, i = x
    if i in FAILS:
        raise BadInput('bad', i)
    return ('r', i)


def f2(tag, i):        # starmap flavour
    return f((tag, i))


class _Stub:
    """just enough of a Pool for the unbound _map_async / imap / imap_unordered"""
    _state = bp.RUN
    lost_worker_timeout = 10.0

    def __init__(self, psize):
        self._pool = [None] * psize
        self._cache = {}
        self._taskqueue = queue.Queue()


class MapAdapter:
    def reset(self, st):
        global FAILS
        self.n, self.c, self.kind = st['n'], st['c'], st['kind']
        self.cgiven, self.psize = st['cgiven'], st['psize']
        FAILS.clear()
        FAILS.update(st['fails'])
        self.fails = sorted(st['fails'])
        bp.job_counter = iter(range(1000))
        self.stub = _Stub(self.psize)
        self.inputs = [('in', i) for i in range(1, self.n + 1)]
        self.cnt = {'cb': 0, 'ecb': 0}
        self.star = (self.kind == 'map' and self.n % 2 == 1)
        if self.kind == 'map':
            def cb(v):
                self.cnt['cb'] += 1

            def ecb(e):
                self.cnt['ecb'] += 1
            self.h = bp.Pool._map_async(self.stub, f2 if self.star else f, self.inputs,
                                        bp.starmapstar if self.star else bp.mapstar,
                                        self.cgiven or None, cb, ecb)
            self.it = None
            self.res = self.h
        else:
            fn = bp.Pool.imap if self.kind == 'imap' else bp.Pool.imap_unordered
            self.it = fn(self.stub, f, self.inputs, self.cgiven)
            self.res = next(iter(self.stub._cache.values()))
        self.gen, self.set_length = self.stub._taskqueue.get_nowait()
        self.tasks = {}
        self.sent = 0
        self.lenset = False
        self.acked, self.done = set(), set()
        self.yielded, self.stopped, self.last, self.ndup = [], False, 'none', 0
        self.rh = bp.ResultHandler(None, None, self.stub._cache, None, None, None,
                                   restart_state(0, 1), None, None, on_ready_counters={})

    # ---- helpers --------------------------------------------------------------
    def _nparts(self):
        return 0 if self.c == 0 else -(-self.n // self.c)

    def _tok_item(self, v):
        if isinstance(v, tuple) and len(v) == 2 and v[0] == 'r':
            return v[1]
        return -1

    def _tok_result(self, obj):
        """(success, value) of one part -> ["ok", p] | ["err", k]"""
        ok, val = obj
        if ok:
            if self.c == 1 and self.kind != 'map':
                return ['ok', self._tok_item(val)]
            first = self._tok_item(val[0]) if val else -1
            p = (first - 1) // self.c + 1
            want = [('r', i) for i in range((p - 1) * self.c + 1, min(p * self.c, self.n) + 1)]
            return ['ok', p if list(val) == want else -1]
        return ['err', self._tok_err(val)]

    def _tok_err(self, einfo):
        exc = einfo.exception
        exc = getattr(exc, 'exc', exc)
        if type(exc) is BadInput and len(exc.args) == 2 and exc.args[0] == 'bad':
            return exc.args[1]
        return -1

    # ---- actions ----------------------------------------------------------------
    def step(self, act):
        n = act['name']
        if n == 'Send':
            task = next(self.gen)
            typ, (job, i, fun, args, kw) = task
            if typ != bp.TASK or i != act['p'] - 1 or job != self.res._job:
                raise AssertionError('unexpected task %r' % (task,))
            self.tasks[act['p']] = pickle.loads(pickle.dumps(task))   # the pipe pickles
            self.sent += 1
        elif n == 'SetLength':
            if next(self.gen, None) is not None:
                raise AssertionError('task generator longer than the specification says')
            self.set_length(self.sent)
            self.lenset = True
        elif n == 'Ack':
            p = act['p']
            self.rh.state_handlers[bp.ACK](self.res._job, p - 1, 1000.0, 100 + p, None)
            self.acked.add(p)
        elif n == 'Complete':
            p = act['p']
            typ, (job, i, fun, args, kw) = self.tasks[p]
            try:                               # what Worker.workloop does
                result = (True, fun(*args, **kw))
            except BaseException:
                result = (False, ExceptionInfo())
            result = pickle.loads(pickle.dumps(result))
            self.rh.state_handlers[bp.READY](job, i, result, None)
            self.done.add(p)
            if act.get('dup'):
                self.ndup += 1
        elif n == 'NextItem':
            try:
                if self.c == 1:
                    v = self.it.next(timeout=0)
                else:
                    if not self._gen_ready():
                        raise AssertionError('generator would block')
                    v = next(self.it)
                self.yielded.append(['ok', self._tok_item(v)])
                self.last = 'item'
            except StopIteration:
                self.stopped, self.last = True, 'stop'
            except BTimeout:
                self.last = 'timeout'
            except AssertionError:
                raise
            except Exception as exc:
                rec = exc.args[0] if exc.args else None
                if isinstance(rec, ExceptionInfo):
                    self.yielded.append(['err', self._tok_err(rec)])
                else:
                    self.yielded.append(['err', -1])
                self.last = 'error'
            return dict(act, got=self.last)
        else:
            raise ValueError(n)

    def _gen_ready(self):
        r = self.res
        fr = self.it.gi_frame
        if fr is None:
            return True
        if self._chunkbuf():
            return True
        return bool(r._items) or (r._length is not None and r._index == r._length)

    def _chunkbuf(self):
        fr = self.it.gi_frame if self.c != 1 and self.it is not None else None
        if fr is None:
            return []
        loc = fr.f_locals
        chunk, item = loc.get('chunk'), loc.get('item')
        if chunk is None or item is None:
            return []
        toks = [self._tok_item(v) for v in chunk]
        cur = self._tok_item(item)
        if cur in toks:
            return [['ok', t] for t in toks[toks.index(cur) + 1:]]
        return []

    # ---- projection ---------------------------------------------------------------
    def project(self):
        r = self.res
        st = {'n': self.n, 'c': self.c, 'kind': self.kind, 'fails': self.fails,
              'cgiven': self.cgiven, 'psize': self.psize, 'sent': self.sent,
              'lenset': self.lenset, 'acked': sorted(self.acked), 'done': sorted(self.done),
              'incache': self.stub._cache.get(r._job) is r,
              'yielded': list(self.yielded), 'stopped': self.stopped, 'last': self.last,
              'ndup': self.ndup}
        if self.kind == 'map':
            ready = r.ready()
            mval = [0] * self.n
            merr = 0
            if r._success:
                mval = [0 if v is None else self._tok_item(v) for v in r._value]
                if ready:
                    # data clause: exactly the list a sequential map returns
                    seq = [f(x) for x in self.inputs] if not self.fails else None
                    if r.get(0) != seq:
                        mval = [-1] * self.n
            else:
                mval = self._mval_before_error
                merr = self._tok_err(r._value)
                try:
                    r.get(0)
                    merr = -2
                except BadInput as exc:
                    cause = exc.__cause__
                    if not (isinstance(cause, RemoteTraceback) and 'in f' in str(cause)):
                        merr = -3            # remote traceback must be attached
                except Exception:
                    merr = -4
            if r._success:
                self._mval_before_error = mval
            st.update(mval=mval, merr=merr, mleft=r._number_left, mready=ready,
                      msucc=bool(r._success), mcb=self.cnt['cb'], mecb=self.cnt['ecb'],
                      idx=0, items=[], unsorted=[], ilen=[], iready=False,
                      chunkbuf=[], gdead=False)
        else:
            gdead = self.c != 1 and self.it.gi_frame is None
            st.update(mval=[0] * self.n, merr=0, mleft=self._nparts(), mready=False, msucc=True,
                      mcb=0, mecb=0, idx=r._index,
                      items=[self._tok_result(o) for o in r._items],
                      unsorted=sorted([i, self._tok_result(o)] for i, o in r._unsorted.items()),
                      ilen=[] if r._length is None else [r._length], iready=bool(r._ready),
                      chunkbuf=self._chunkbuf(), gdead=gdead)
        return st

    _mval_before_error = []

    def normalize(self, st):
        st = dict(st)
        for k in ('fails', 'acked', 'done'):
            st[k] = sorted(st[k])
        st['unsorted'] = sorted(st['unsorted'])
        return st
