"""Binding A for Race.tla: a real ApplyResult in a real job table, resolved by the real
ResultHandler.on_ready, the real TimeoutHandler.on_hard_timeout and the supervisor's
check-then-mark (`not job.ready()` ... Pool.mark_as_worker_lost), each on its own baton-passing
thread that parks right after it has looked whether the job is resolved."""
import logging
import threading

import billiard.pool as bp
import billiard.util as _bu
from billiard.common import restart_state
from billiard.exceptions import TimeLimitExceeded, WorkerLostError
from lib.cothread import Co

_bu.get_logger().addHandler(logging.NullHandler())
_bu.get_logger().propagate = False


class _Sem:
    def release(self):
        pass


class CoLock:
    """the handle's mutex as a scheduling point: a writer thread parks when it reaches the lock
    (`atlock`) and takes it when the schedule lets it go on; if it is still taken then -- a schedule
    the specification does not contain -- it says so (`blocked`) and tries again when resumed"""

    def __init__(self, ad):
        self.ad = ad
        self.real = threading.Lock()

    def acquire(self, blocking=True, timeout=-1):
        w = self.ad._who()
        if w is None:
            return self.real.acquire(blocking, timeout)
        self.ad.cos[w].yield_('atlock')
        while not self.real.acquire(False):
            self.ad.cos[w].yield_('blocked')
        return True

    def release(self):
        self.real.release()

    def locked(self):
        return self.real.locked()

    def __enter__(self):
        self.acquire()
        return self

    def __exit__(self, *exc):
        self.release()


class RaceAdapter:
    def reset(self, st):
        self.writers = sorted(st['pc'])
        self.cache = {}
        self.cnt = {'cb': 0, 'ecb': 0, 'softsig': 0, 'tcb': 0, 'tcancel': 0}
        self.hist = []
        self.saw = {w: False for w in self.writers}
        self.look = {w: 0 for w in self.writers}
        self.pc = {w: 'idle' for w in self.writers}
        bp.job_counter = iter(range(1, 100))
        ad = self

        def park(where='incb'):
            # user code: the callback stays where it is until the schedule lets it return
            w = ad._who()
            ad._note()
            if w is not None:
                ad.cos[w].yield_(where)

        def tcancel(job):
            ad.cnt['tcancel'] += 1
            park('intc')

        def cb(v):
            ad.cnt['cb'] += 1
            park()

        def ecb(e):
            ad.cnt['ecb'] += 1
            park()

        def tcb(soft=False, timeout=None):
            if soft:
                ad.cnt['tcb'] += 1

        def kill(pid, sig):
            if pid == 4242 and sig == bp.SIG_SOFT_TIMEOUT:
                ad.cnt['softsig'] += 1
        bp._kill = kill
        job = bp.ApplyResult(self.cache, cb, error_callback=ecb, timeout_callback=tcb,
                             soft_timeout=1, timeout=1, on_timeout_cancel=tcancel)
        job._ack(None, 1000.0, 4242, None)
        job._mutex = CoLock(self)
        self.job = job
        self._last = (False, id(None))
        self.cos = {}
        cls = job.__class__

        class Watched(cls):
            """parks a writer thread right after its look at ready(); records every outcome set"""

            def ready(s):
                r = cls.ready(s)
                w = ad._who()
                if w is not None and ad.pc[w] == 'idle':
                    if w != 'result':
                        ad.saw[w] = not r
                    ad.look[w] = ad.cnt['cb'] + ad.cnt['ecb']
                    ad.cos[w].yield_('checked')
                return r

            def _set(s, i, obj):
                cls._set(s, i, obj)
                ad._note()
        Watched.__name__ = cls.__name__
        job.__class__ = Watched

        class _Proc:
            pid = 4242
            _name = 'w'
        self.th = bp.TimeoutHandler([_Proc()], self.cache, None, 1)
        self.th._trywaitkill = lambda worker: None      # (the hard branch's kill is Pool.tla's business)
        self.rh = bp.ResultHandler(None, None, self.cache, None, None, _Sem(),
                                   restart_state(0, 1), None, None, on_ready_counters={})

    def _note(self):
        """every outcome the job is given, as soon as it is observable"""
        j = self.job
        cur = (j._event.is_set(), id(j.__dict__.get('_value')))
        if cur != self._last:
            self._last = cur
            if cur[0]:
                self.hist.append(self._kind())

    def _who(self):
        cur = threading.current_thread()
        for w, co in self.cos.items():
            if co.thread is cur:
                return w
        return None

    def _kind(self):
        j = self.job
        if not j._event.is_set():
            return 'none'
        if j._success:
            return 'ok'
        exc = j._value.exception
        exc = getattr(exc, 'exc', exc)
        return 'timelimit' if isinstance(exc, TimeLimitExceeded) else \
            'lost' if isinstance(exc, WorkerLostError) else 'other'

    def _body(self, w):
        job = self.job
        if w == 'result':
            def run():
                # the table look-up is the result handler's own look
                self.saw['result'] = self.cache.get(job._job) is job
                self.look['result'] = self.cnt['cb'] + self.cnt['ecb']
                self.rh.state_handlers[bp.READY](job._job, None, (True, 'value'), None)
                if self.pc['result'] == 'idle':       # (the job had left the table: no ready() look)
                    self.cos['result'].yield_('checked')
        elif w == 'timeout':
            def run():
                self.th.on_hard_timeout(job)
                if self.pc['timeout'] == 'idle':
                    self.cos['timeout'].yield_('checked')
        elif w == 'soft':
            def run():
                self.th.on_soft_timeout(job)
                if self.pc['soft'] == 'idle':
                    self.cos['soft'].yield_('checked')
        else:
            def run():
                # _join_exited_workers: `if not job.ready() and job._worker_lost: ... mark_as_worker_lost`
                if not job.ready():
                    bp.Pool.mark_as_worker_lost(None, job, -9)
        return run

    def step(self, act):
        w = act['w']
        if act['name'] == 'Check':
            co = self.cos[w] = Co(self._body(w), name=w)
            co.start()
            if co.crash is not None:
                raise co.crash
            self.pc[w] = 'checked'
        else:
            # Set / SoftAct: up to the entry of a user callback or the end of the call; Finish: the rest
            co = self.cos[w]
            if not co.finished:
                co.resume()
            if co.crash is not None:
                raise co.crash
            self.pc[w] = 'done' if co.finished else co.msg if isinstance(co.msg, str) else 'crashed'

    def project(self):
        holder = [w for w in self.writers if self.pc[w] in ('intc', 'incb')]
        return {'pc': dict(self.pc), 'saw': dict(self.saw), 'look': dict(self.look),
                'mutex': (holder[0] if holder else 'held') if self.job._mutex.locked() else 'none',
                'softsig': self.cnt['softsig'], 'tcb': self.cnt['tcb'], 'tcancel': self.cnt['tcancel'],
                'out': self._kind(),
                'incache': self.cache.get(self.job._job) is self.job,
                'cb': self.cnt['cb'], 'ecb': self.cnt['ecb'], 'hist': list(self.hist)}

    def quiesce(self):
        return []

    def close(self):
        for co in self.cos.values():
            try:
                co.destroy()
            except Exception:
                pass
