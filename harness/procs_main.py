"""Driver process for C19 (run by lib/sandbox.run_driver): executes the scenarios in a
fresh interpreter and writes the observed sequences as JSON."""
import json
import os
import sys

from harness import procs


def main():
    out, tier = sys.argv[1], sys.argv[2]
    jobs = json.loads(sys.argv[3])
    obs = []
    for method, how, si in jobs:
        sched = procs.SCHEDULES[si]
        obs.append(procs.scenario(method, tuple(how), sched))
    obs.append(procs.start_in_child())
    # a parent that is itself a child of another start method
    obs.append(procs.nested('forkserver', 'fork', ('exit', 3), 2))
    obs.append(procs.nested('spawn', 'fork', ('signal', 9), 3))
    if tier == 'thorough':
        obs.append(procs.nested('fork', 'spawn', ('exit', 0), 1))
        obs.append(procs.nested('forkserver', 'forkserver', ('return',), 0))
    with open(out + '.tmp', 'w') as fh:
        json.dump(obs, fh)
    os.replace(out + '.tmp', out)
    sys.stdout.flush()
    os._exit(0)


if __name__ == '__main__':
    main()
