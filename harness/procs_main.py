"""Driver process for C19 (run by lib/sandbox.run_driver): executes the scenarios in a
fresh interpreter and writes the observed sequences as JSON."""
import json
import os
import sys

from harness import procs


def main():
    out, tier = sys.argv[1], sys.argv[2]
    jobs = json.loads(sys.argv[3])
    obs = []
    def guarded(fn, method, how):
        # billiard's bookkeeping of *earlier* children runs inside start() / active_children():
        # a call that raises because of it is what the parent sees, not a harness failure
        try:
            return fn()
        except Exception as exc:      # noqa
            st = {'method': method, 'how': list(how), 'phase': 'new'}
            return [{'act': {'e': 'init'}, 'state': st},
                    {'act': {'e': 'api_error', 'call': 'scenario', 'what': type(exc).__name__}, 'state': st}]
    for method, how, si in jobs:
        sched = procs.SCHEDULES[si]
        obs.append(guarded(lambda: procs.scenario(method, tuple(how), sched), method, how))
    obs.append(guarded(procs.start_in_child, 'fork', ['return']))
    # a parent that is itself a child of another start method
    obs.append(guarded(lambda: procs.nested('forkserver', 'fork', ('exit', 3), 2), 'fork', ['exit', 3]))
    obs.append(guarded(lambda: procs.nested('spawn', 'fork', ('signal', 9), 3), 'fork', ['signal', 9]))
    if tier == 'thorough':
        obs.append(procs.nested('fork', 'spawn', ('exit', 0), 1))
        obs.append(procs.nested('forkserver', 'forkserver', ('return',), 0))
    with open(out + '.tmp', 'w') as fh:
        json.dump(obs, fh)
    os.replace(out + '.tmp', out)
    sys.stdout.flush()
    os._exit(0)


if __name__ == '__main__':
    main()
