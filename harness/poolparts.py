"""Binding A for PoolParts.tla: one real map / imap / imap_unordered job inside the real
billiard.pool.Pool(threads=False) in the fake world (harness/fakeworld.py).

The feeder's steps (TaskHandler.body: put one task, then set_length) are taken by the adapter
from the real (taskseq, set_length) pair that Pool._map_async / imap / imap_unordered put on
the task queue; TaskHandler itself is bound by Feed.tla."""
import pickle
import re

import billiard.pool as bp
from billiard.einfo import ExceptionInfo
from billiard.exceptions import WorkerLostError

from . import fakeworld as fw
from lib.replay import Unrealizable

import logging
import billiard.util as _bu
_bu.get_logger().addHandler(logging.NullHandler())
_bu.get_logger().propagate = False


class PartError(Exception):
    pass


def part_fn(x):       # never executed in the fake world; must be picklable
    return ('ok', x)


def _einfo(i):
    try:
        raise PartError(i)
    except PartError:
        return ExceptionInfo()


_SIG = re.compile(r'signal (\d+)')
_EXC = re.compile(r'exitcode (-?\d+)')


def _lost_code(exc):
    m = _SIG.search(str(exc))
    if m:
        return -int(m.group(1))
    m = _EXC.search(str(exc))
    return int(m.group(1)) if m else 9999


def _unwrap(e):
    e = getattr(e, 'exception', e)
    return getattr(e, 'exc', e)


class PartsAdapter:
    def __init__(self, consts):
        self.c = consts

    def reset(self, st):
        c = self.c
        self.world = fw.World()
        fw.install(self.world)
        self.pool = bp.Pool(
            processes=c['Procs'], threads=False, context=fw.FakeContext(self.world),
            lost_worker_timeout=c['Grace'] + 3, putlocks=False,      # the job carries its own (Grace)
            maxtasksperchild=c['Quota'] or None, enable_timeouts=False)
        self.pool.join = lambda: None
        self.kind = c['Kind']
        self.n = c['NParts']
        self.cs = c.get('ChunkSize', 1) if self.kind == 'map' else 1
        self.cnt = {'cb': 0, 'ecb': 0}
        items = list(range(1, self.n * self.cs + 1))
        if self.kind == 'map':
            def cb(v):
                self.cnt['cb'] += 1

            def ecb(e):
                self.cnt['ecb'] += 1
            self.h = self.pool.map_async(part_fn, items, chunksize=self.cs, callback=cb,
                                         error_callback=ecb)
            # map_async() has no lost_worker_timeout argument and does not hand the pool's on: the
            # job's own timeout (10 s by default) is set here
            self.h._lost_worker_timeout = c['Grace']
        elif self.kind == 'imap':
            self.h = self.pool.imap(part_fn, items, lost_worker_timeout=c['Grace'])
        else:
            self.h = self.pool.imap_unordered(part_fn, items, lost_worker_timeout=c['Grace'])
        self.taskseq, self.set_length = self.pool._taskqueue.get_nowait()
        self.nsent = 0
        self.lenset = False
        self.wk = {p: {'pc': 'idle', 'i': 0, 'nd': 0, 'held': 0} for p in self.world.procs}
        self.outmeta = []
        self.deliv = []
        self.miscredit = 0
        self.lateack = False
        self.done = ['none'] * self.n

    def close(self):
        try:
            self.pool._terminate.cancel()
        except Exception:
            pass
        fw.uninstall()

    # ------------------------------------------------------------------ steps
    def _sync_workers(self):
        for pid in self.world.procs:
            self.wk.setdefault(pid, {'pc': 'idle', 'i': 0, 'nd': 0, 'held': 0})

    def _put_out(self, msg, meta):
        self.pool._outqueue.items.append(pickle.dumps(msg))
        self.outmeta.append(meta)

    def _value(self, i, res):
        if res == 'ok':
            if self.kind == 'map':
                return (True, [('ok', x) for x in range((i - 1) * self.cs + 1, i * self.cs + 1)])
            return (True, ('ok', i))
        return (False, _einfo(i))

    def step(self, act):
        n = act['name']
        W, pool = self.world, self.pool
        if n == 'SendPart':
            task = next(self.taskseq)
            if task[1][1] != act['i'] - 1:
                raise AssertionError('parts are fed in a different order than the specification')
            pool._quick_put(task)
            self.nsent += 1
        elif n == 'SetLength':
            try:
                next(self.taskseq)
                raise AssertionError('more parts than the specification')
            except StopIteration:
                pass
            if self.set_length is None:
                raise Unrealizable('no set_length for this kind')
            self.set_length(self.nsent)
            self.lenset = True
        elif n == 'W_Accept':
            pid = act['pid']
            raw = pool._inqueue.items.popleft()
            typ, (job, i, fun, args, kwargs) = pickle.loads(raw)
            if job != self.h._job or i != act['i'] - 1:
                raise AssertionError('task pipe order differs from the specification')
            self.wk[pid].update(pc='run', i=act['i'], held=act['i'])
            self._put_out((bp.ACK, (job, i, W.clock(), pid, None)),
                          {'t': 'ACK', 'i': act['i'], 'pid': pid, 'res': 'none'})
        elif n == 'W_Finish':
            pid = act['pid']
            wk = self.wk[pid]
            i = wk['i']
            wk['nd'] += 1
            q = self.c['Quota']
            wk.update(pc='quota' if q and wk['nd'] >= q else 'idle', i=0, held=0)
            self._put_out((bp.READY, (self.h._job, i - 1, self._value(i, act['res']),
                                      pool._inqueue._writer.fileno())),
                          {'t': 'READY', 'i': i, 'pid': pid, 'res': act['res']})
        elif n == 'W_QuotaExit':
            W.procs[act['pid']]._exit = bp.EX_RECYCLE
        elif n == 'W_Die':
            W.procs[act['pid']]._exit = act['st']
        elif n in ('RH_Ack', 'RH_Ready'):
            if not self.outmeta or self.outmeta[0]['t'] != n[3:].upper():
                raise AssertionError('result pipe head differs from the specification')
            m = self.outmeta[0]
            incache = pool._cache.get(self.h._job) is self.h
            counters = {p.pid: pool._on_ready_counters[p.pid].value for p in pool._pool}
            if n == 'RH_Ack' and incache and m['pid'] not in counters:
                self.lateack = True
            before = len(pool._outqueue.items)
            pool.handle_result_event()
            if len(pool._outqueue.items) != before - 1:
                raise AssertionError('handle_result_event did not consume exactly one message')
            self.outmeta.pop(0)
            if n == 'RH_Ready' and incache:
                # observation: whose consumed-result counter went up?
                after = {p.pid: pool._on_ready_counters[p.pid].value for p in pool._pool}
                up = [p for p in after if after[p] != counters.get(p, 0)]
                if (up and up != [m['pid']]) or (not up and m['pid'] in after):
                    self.miscredit += 1
                if self.kind != 'map' or m['res'] == 'ok' or True:
                    self.done[m['i'] - 1] = m['res']
        elif n == 'Maintain':
            pool.maintain_pool()
            self._sync_workers()
        elif n == 'Tick':
            W.t += 1
        else:
            raise ValueError(n)
        self._drain()
        return None

    # the consumer: takes whatever the iterator has ready
    def _drain(self):
        if self.kind == 'map':
            return
        h = self.h
        for _ in range(50):
            if not h._items:
                break
            try:
                v = h.next(timeout=0)
                if isinstance(v, tuple) and len(v) == 2 and v[0] == 'ok':
                    self.deliv.append({'k': 'ok', 'i': v[1]})
                else:
                    self.deliv.append({'k': 'wrongvalue', 'i': 0})
            except StopIteration:
                break
            except bp.TimeoutError:
                break
            except Exception as e:       # a failed item is raised as Exception(einfo)
                exc = _unwrap(e.args[0] if e.args else e)
                if isinstance(exc, PartError):
                    self.deliv.append({'k': 'err', 'i': exc.args[0]})
                elif isinstance(exc, WorkerLostError):
                    self.deliv.append({'k': 'lost', 'i': _lost_code(exc)})
                else:
                    self.deliv.append({'k': 'other:' + type(exc).__name__, 'i': 0})

    # ------------------------------------------------------------- projection
    def _owners(self):
        h = self.h
        if self.kind == 'map':
            out = []
            for i in range(self.n):
                pids = set(h._worker_pid[i * self.cs:(i + 1) * self.cs])
                if pids == {None}:
                    continue
                out.append([i + 1, pids.pop() if len(pids) == 1 and None not in pids else -1])
            # what worker_pids() itself says must agree with the per-item table
            flat = [p for p in h._worker_pid if p]
            if list(h.worker_pids()) != flat:
                out.append([0, -2])
            return out
        return [[(-1 if i is None else i + 1), pid] for i, pid in h._worker_pids.items()]

    def project(self):
        pool, W, h = self.pool, self.world, self.h
        self._sync_workers()
        inq = []
        for raw in pool._inqueue.items:
            m = pickle.loads(raw)
            inq.append(0 if m is None else m[1][1] + 1)
        wl = []
        for pid in sorted(W.procs):
            p = W.procs[pid]
            k = self.wk[pid]
            ex = [] if p._exit is None else [p._exit]
            wl.append({'pc': 'exited' if ex else k['pc'], 'i': k['i'], 'nd': k['nd'], 'ex': ex,
                       'held': k['held']})
        out, oarg, left = 'none', 0, 0
        if self.kind == 'map':
            left = h._number_left
            if h.ready():
                if h._success:
                    want = [('ok', x) for x in range(1, self.n * self.cs + 1)]
                    out = 'ok' if h._value == want else 'wrongvalue'
                else:
                    exc = _unwrap(h._value)
                    if isinstance(exc, PartError):
                        out, oarg = 'err', exc.args[0]
                    elif isinstance(exc, WorkerLostError):
                        out, oarg = 'lost', _lost_code(exc)
                    else:
                        out = 'other:' + type(exc).__name__
            acc = sorted(i + 1 for i in range(self.n)
                         if all(h._accepted[i * self.cs:(i + 1) * self.cs]))
            idx, uns = 0, []
        else:
            acc = []
            idx = h._index
            uns = sorted((0 if k is None else k + 1) for k in h._unsorted)
        lost = []
        if h._worker_lost:
            lost = [int(round(h._worker_lost[0] - fw.CLOCK0)), h._worker_lost[1]]
        return {
            'nsent': self.nsent, 'lenset': self.lenset, 'inq': inq, 'outq': list(self.outmeta),
            'owners': self._owners(), 'acc': acc, 'done': list(self.done),
            'jr': {'ready': bool(h.ready()), 'out': out, 'oarg': oarg, 'lost': lost,
                   'incache': pool._cache.get(h._job) is h, 'cb': self.cnt['cb'],
                   'ecb': self.cnt['ecb'], 'left': left},
            'idx': idx, 'unsorted': uns, 'deliv': list(self.deliv),
            'pool': [{'pid': p.pid, 'cnt': pool._on_ready_counters[p.pid].value} for p in pool._pool],
            'w': wl, 'now': W.t, 'miscredit': self.miscredit, 'lateack': self.lateack,
        }

    def normalize(self, st):
        st = dict(st)
        st['acc'] = sorted(st.get('acc', []))
        st['unsorted'] = sorted(st.get('unsorted', []))
        return st

    # ---------------------------------------------------------------- quiesce
    def quiesce(self):
        pool, W = self.pool, self.world
        for rnd in range(5):
            while self.nsent < self.n:
                a = {'name': 'SendPart', 'i': self.nsent + 1}
                self.step(a)
                yield a, self.project()
            if self.set_length is not None and not self.lenset:
                a = {'name': 'SetLength'}
                self.step(a)
                yield a, self.project()
            for pid in sorted(W.procs):
                if W.procs[pid]._exit is None and self.wk[pid]['pc'] == 'run':
                    a = {'name': 'W_Finish', 'pid': pid, 'res': 'ok'}
                    self.step(a)
                    yield a, self.project()
            while self.outmeta:
                m = dict(self.outmeta[0])
                a = {'name': 'RH_' + m['t'].capitalize(), 'i': m['i'], 'pid': m['pid']}
                if m['t'] == 'READY':
                    a['res'] = m['res']
                self.step(a)
                yield a, self.project()
            for pid in sorted(W.procs):
                if W.procs[pid]._exit is None and self.wk[pid]['pc'] == 'idle' and pool._inqueue.items:
                    i = pickle.loads(pool._inqueue.items[0])[1][1] + 1
                    a = {'name': 'W_Accept', 'pid': pid, 'i': i}
                    self.step(a)
                    yield a, self.project()
            a = {'name': 'Maintain', 'report': False}
            self.step(a)
            yield a, self.project()
            a = {'name': 'Tick'}
            self.step(a)
            yield a, self.project()
