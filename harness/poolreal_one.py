"""One real-pool scenario in one process (a broken pool may hang or even take its host
process down, e.g. PoolThread.run -> os._exit(1)); prints one JSON line."""
import json
import os
import signal
import sys
import tempfile
import threading
import time

from billiard import pool as bp
from billiard.exceptions import (SoftTimeLimitExceeded, Terminated, TimeLimitExceeded, TimeoutError as BTimeout,
                                 WorkerLostError)

from harness import targets

SCRATCH = os.environ.get('VERIF_SCRATCH') or '/var/tmp'
SCALE = float(os.environ.get('VERIF_TIME_SCALE', '1'))     # allowance for a busy machine (upper bounds only)


def _wait_file(path, bound=10):
    bound *= SCALE
    t0 = time.time()
    while time.time() - t0 < bound:
        try:
            s = open(path).read().strip()
            if s:
                return int(s)
        except (OSError, ValueError):
            pass
        time.sleep(0.005)
    return None


def _outcome(h, bound):
    bound *= SCALE
    """('ok', v) | ('exc', typename, text) | ('pending',) within bound seconds"""
    try:
        return ('ok', h.get(bound))
    except BTimeout:
        return ('pending',)
    except BaseException as exc:      # noqa
        exc = getattr(exc, 'exc', exc)          # ExceptionWithTraceback wrapper of pool-made failures
        return ('exc', type(exc).__name__, str(exc)[:200])


def _gone(pid, bound=3.0):
    bound *= SCALE
    t0 = time.time()
    while time.time() - t0 < bound:
        try:
            st = open('/proc/%d/stat' % pid).read().split(') ')[-1].split()[0]
            if st == 'Z':
                return round(time.time() - t0, 2)
        except OSError:
            return round(time.time() - t0, 2)
        time.sleep(0.01)
    return -1.0


def loss(sc):
    grace = 0.6
    d = tempfile.mkdtemp(prefix='s-', dir=SCRATCH)
    mark = os.path.join(d, 'pid')
    pool = bp.Pool(sc['procs'], lost_worker_timeout=grace)
    kind = sc['job']
    how = sc['how']                      # ['signal', n] | ['exit', n]
    others = [pool.apply_async(targets.pid_task, (i, 0.3)) for i in range(2)]
    t_sub = time.monotonic()
    if how[0] == 'exit':
        fn, args = targets.announce_and_exit, (mark, how[1])
    else:
        fn, args = targets.announce_and_block, (mark, 60)
    it = None
    if kind == 'apply':
        h = pool.apply_async(fn, args)
    elif kind == 'map':
        h = pool.map_async(_Call(fn, args), [0])
    else:
        it = (pool.imap if kind == 'imap' else pool.imap_unordered)(_Call(fn, args), [0],
                                                                    lost_worker_timeout=grace)
    victim = _wait_file(mark)
    res = {'kind': 'loss', 'victim_found': victim is not None}
    if victim is None:
        return res
    if sc.get('closing'):
        # the worker dies while the pool is being closed and joined: the loss is still reported
        for x in others:
            _outcome(x, 10)
        pool.close()
        threading.Thread(target=pool.join, daemon=True).start()
        time.sleep(0.2)
    t_kill = time.monotonic()            # a lower bound for the moment of death
    if how[0] == 'signal':
        os.kill(victim, how[1])
    else:
        for _ in range(400):
            try:
                t_kill = float(open(mark + '.t').read())
                break
            except (OSError, ValueError):
                time.sleep(0.005)
    bound = (10.0 if kind == 'map' else grace) + 0.8 + 6 * SCALE      # map_async jobs carry the 10 s default
    if it is None:
        o = _outcome(h, bound)
    else:
        try:
            o = ('ok', it.next(timeout=bound))      # (bound already scaled)
        except BTimeout:
            o = ('pending',)
        except BaseException as exc:      # noqa
            inner = exc.args[0] if exc.args else None
            ex = getattr(getattr(inner, 'exception', None), 'exc', getattr(inner, 'exception', exc))
            o = ('exc', type(ex).__name__, str(ex)[:200])
    t_res = time.monotonic()
    want = how[1] if how[0] == 'exit' else -how[1]
    from billiard.common import human_status
    res.update(outcome=o[0], exc=o[1] if o[0] == 'exc' else '',
               names_status=(o[0] == 'exc' and human_status(want) in o[2]),
               delay10=int((t_res - t_kill) * 10), grace10=int((10.0 if kind == 'map' else grace) * 10),
               others_ok=all(_outcome(x, 10)[0] == 'ok' for x in others))
    if sc.get('closing'):
        res['pool_size'] = sc['procs']       # a closed pool is not refilled, nor usable: not judged
        res['usable_after'] = True
        return res
    time.sleep(1.0)
    res['pool_size'] = len([w for w in pool._pool if w._is_alive()])
    after = pool.apply_async(targets.pid_task, (7,))
    res['usable_after'] = _outcome(after, 10)[0] == 'ok'
    return res


class _Slow:
    def __init__(self, d):
        self.d = d

    def __call__(self, x):
        return targets.slow(x, self.d)


class _Call:
    """picklable: calls fn(*args) whatever the item"""

    def __init__(self, fn, args):
        self.fn, self.args = fn, args

    def __call__(self, item):
        return self.fn(*self.args)


def hard(sc):
    d = tempfile.mkdtemp(prefix='s-', dir=SCRATCH)
    mark = os.path.join(d, 'pid')
    lim = 0.5
    where = sc['where']                  # 'job' | 'pool' | 'both'
    cbs = []
    pool = bp.Pool(sc['procs'], timeout=(lim if where in ('pool', 'both') else None),
                   enable_timeouts=True, putlocks=bool(sc.get('putlocks')),
                   initializer=targets.become_group_leader if sc.get('leader') else None)
    kw = {}
    if where in ('job', 'both'):
        kw['timeout'] = lim if where == 'job' else 0.3
    t0 = time.monotonic()
    task = targets.announce_and_block_stubborn if sc.get('stubborn') else targets.announce_and_block
    h = pool.apply_async(task, (mark, 60),
                         timeout_callback=lambda soft, timeout: cbs.append((soft, timeout)), **kw)
    victim = _wait_file(mark)
    o = _outcome(h, 8)
    t1 = time.monotonic()
    eff = kw.get('timeout', lim)
    res = {'kind': 'hard', 'outcome': o[0], 'exc': o[1] if o[0] == 'exc' else '',
           'delay10': int((t1 - t0) * 10), 'limit10': int(eff * 10),
           'victim_gone10': int(_gone(victim) * 10) if victim else -10,
           'callback_ok': cbs == [(False, eff)]}
    quick = pool.apply_async(targets.pid_task, (1,))      # inside its limit: must not be timed out
    res['next_ok'] = _outcome(quick, 10)[0] == 'ok'
    res['pool_size'] = len([w for w in pool._pool if w._is_alive()])
    time.sleep(1.2)                       # one more supervision pass: the victim has been reaped
    res['slots_free'] = pool._putlock._value
    res['slots'] = pool._putlock._initial_value
    return res


def hard_map(sc):
    """map / imap jobs on a pool with default limits are never timed out (and do no harm)"""
    pool = bp.Pool(2, timeout=5, soft_timeout=4)
    if sc['job'] == 'map':
        h = pool.map_async(_Slow(0.7), list(range(4)))     # in the job table for ~1.4 s: scans see it
        o = _outcome(h, 8)
        ok = o[0] == 'ok' and o[1] == [('ok', i) for i in range(4)]
    else:
        it = pool.imap(_Slow(0.7), list(range(4)))
        try:
            ok = [it.next(timeout=8 * SCALE) for _ in range(4)] == [('ok', i) for i in range(4)]
        except BaseException:      # noqa
            ok = False
    after = pool.apply_async(targets.pid_task, (1,))
    return {'kind': 'hard_map', 'results_ok': bool(ok), 'next_ok': _outcome(after, 10)[0] == 'ok',
            'host_alive': True}


def soft(sc):
    d = tempfile.mkdtemp(prefix='s-', dir=SCRATCH)
    mark = os.path.join(d, 'soft')
    cbs = []
    where = sc['where']
    pool = bp.Pool(sc['procs'], soft_timeout=(0.4 if where in ('pool', 'both') else None),
                   enable_timeouts=True)
    kw = {}
    if where in ('job', 'both'):
        kw['soft_timeout'] = 0.4 if where == 'job' else 0.3
    h = pool.apply_async(targets.soft_catcher, (mark,),
                         timeout_callback=lambda soft, timeout: cbs.append((soft, timeout)), **kw)
    o = _outcome(h, 15)
    seen = o[1][1] if o[0] == 'ok' else -1
    eff = kw.get('soft_timeout', 0.4)
    bystander = pool.apply_async(targets.pid_task, (1,))
    return {'kind': 'soft', 'outcome': o[0], 'raised_in_task': seen, 'callback_ok': cbs == [(True, eff)],
            'ncallbacks': len(cbs), 'bystander_ok': _outcome(bystander, 10)[0] == 'ok'}


def sendfail(sc):
    pool = bp.Pool(2, putlocks=True)
    good1 = pool.apply_async(targets.pid_task, (1,))
    errs = []
    bad = pool.apply_async(targets.pid_task, (threading.Lock(),), error_callback=errs.append)
    good2 = pool.apply_async(targets.pid_task, (2,))
    o = _outcome(bad, 4)
    res = {'kind': 'sendfail', 'bad_outcome': o[0], 'bad_exc': o[1] if o[0] == 'exc' else '',
           'good_ok': _outcome(good1, 10)[0] == 'ok' and _outcome(good2, 10)[0] == 'ok',
           'error_callbacks': len(errs)}
    time.sleep(0.3)
    res['slots_free'] = pool._putlock._value
    res['slots'] = pool._putlock._initial_value
    return res


def idleloss(sc):
    """a worker that has no part of the running job dies: nobody's job may fail"""
    pool = bp.Pool(2, lost_worker_timeout=0.6)
    kind = sc['job']
    fn = _PidSlow(1.5)
    it = None
    if kind == 'apply':
        h = pool.apply_async(fn, (0,))
    elif kind == 'map':
        h = pool.map_async(fn, [0])
    else:
        h = it = (pool.imap if kind == 'imap' else pool.imap_unordered)(fn, [0])
    t0 = time.monotonic()
    busy = []
    while time.monotonic() - t0 < 5 and not busy:
        busy = list(h.worker_pids())
        time.sleep(0.01)
    idle = [w.pid for w in pool._pool if w.pid not in busy]
    res = {'kind': 'idleloss', 'victim_found': bool(busy) and len(idle) == 1}
    if not res['victim_found']:
        return res
    os.kill(idle[0], sc.get('sig', 9))
    if it is None:
        o = _outcome(h, 10)
        val = o[1] if o[0] == 'ok' else None
        if kind == 'map' and val:
            val = val[0]
    else:
        try:
            val = it.next(timeout=10 * SCALE)
            o = ('ok', val)
        except BTimeout:
            o = ('pending',)
        except BaseException as exc:      # noqa
            o = ('exc', type(exc).__name__, str(exc)[:200])
    res.update(outcome=o[0], exc=o[1] if o[0] == 'exc' else '',
               by_survivor=(o[0] == 'ok' and val[0] in busy))
    time.sleep(1.0)
    res['pool_size'] = len([w for w in pool._pool if w._is_alive()])
    # (no demand that the pool is usable afterwards: an idle worker waits for its next task
    #  inside recv() under the task queue's reader lock, and a lock dies with its holder)
    return res


class _PidSlow:
    def __init__(self, d):
        self.d = d

    def __call__(self, x):
        return targets.pid_task(x, self.d)


def discard(sc):
    """a job discarded while it runs, on a pool that recycles: the next job is not held up"""
    pool = bp.Pool(sc.get('procs', 1), maxtasksperchild=sc.get('quota', 1) or None,
                   putlocks=bool(sc.get('putlocks')))
    t0 = time.monotonic()
    h1 = pool.apply_async(targets.pid_task, (1, 0.5))
    time.sleep(0.2)
    h1.discard()
    h2 = pool.apply_async(targets.pid_task, (2, 0.01))
    o = _outcome(h2, 45)
    res = {'kind': 'discard', 'outcome': o[0], 'exc': o[1] if o[0] == 'exc' else '',
           'secs10': int((time.monotonic() - t0) * 10)}
    time.sleep(1.0)                       # the discarded job's result has arrived and been dropped
    res['slots_free'] = pool._putlock._value
    res['slots'] = pool._putlock._initial_value
    return res


def signal_one(sc):
    """one worker gets the termination signal -- from terminate_job() while it runs a task, or from
    an operator while it is idle -- with an exit callback that takes 0.3 s: the callback completes,
    the worker goes, the pool is refilled and serves the next job"""
    d = tempfile.mkdtemp(prefix='s-', dir=SCRATCH)
    log = os.path.join(d, 'exitlog')
    os.environ['VERIF_EXIT_LOG'] = log
    pool = bp.Pool(2, on_process_exit=targets.slow_exit_marker)
    time.sleep(0.5)
    res = {'kind': 'signal_one'}
    if sc['target'] == 'busy':
        mark = os.path.join(d, 'pid')
        h = pool.apply_async(targets.announce_and_block, (mark, 60))
        victim = _wait_file(mark)
        time.sleep(0.2)
        pool.terminate_job(victim)
        o = _outcome(h, 10)
        res['job_outcome'] = o[1] if o[0] == 'exc' else o[0]
    else:
        busy = pool.apply_async(targets.pid_task, (0, 1.0))      # keeps one worker busy: the other is idle
        time.sleep(0.3)
        victim = [w.pid for w in pool._pool if w.pid not in busy.worker_pids()][0]
        os.kill(victim, signal.SIGTERM)
        res['job_outcome'] = 'Terminated'
        _outcome(busy, 10)
    res['gone10'] = int(_gone(victim, 6) * 10)
    time.sleep(0.6)
    try:
        lines = open(log).read().split('\n')
    except OSError:
        lines = []
    res['callback_began'] = ('%d begin' % victim) in lines
    res['callback_ended'] = ('%d end' % victim) in lines
    time.sleep(1.0)
    res['pool_size'] = len([w for w in pool._pool if w._is_alive()])
    res['next_ok'] = _outcome(pool.apply_async(targets.pid_task, (5,)), 10)[0] == 'ok'
    return res


def term_repop(sc):
    """terminate() arrives while the supervisor is in the middle of replacing several recycled
    workers (a slow on_process_up hook stretches the round): it returns, nothing of the pool stays"""
    n = 4
    seen = set()
    pool = bp.Pool(n, maxtasksperchild=1)
    for w in pool._pool:
        seen.add(w.pid)

    def up(w):
        seen.add(w.pid)
        time.sleep(0.3)
    pool.on_process_up = up
    hs = [pool.apply_async(targets.pid_task, (i, 0.05)) for i in range(n)]
    for h in hs:
        _outcome(h, 10)
    first = set(seen)
    t0 = time.monotonic()
    while time.monotonic() - t0 < 10 * SCALE and len(seen) == len(first):
        time.sleep(0.01)                  # the first replacement has been started
    done = []
    th = threading.Thread(target=lambda: (pool.terminate(), done.append(1)), daemon=True)
    t1 = time.monotonic()
    th.start()
    th.join(15 * SCALE)
    res = {'kind': 'term_repop', 'returned': bool(done), 'secs10': int((time.monotonic() - t1) * 10),
           'replacements_started': len(seen) - len(first)}
    time.sleep(1.5)                       # a supervisor that goes on forking would show now
    alive = 0
    for pid in list(seen):
        try:
            st = open('/proc/%d/stat' % pid).read().split(') ')[-1].split()[0]
            alive += st != 'Z'
        except OSError:
            pass
    res['alive'] = alive
    res['forked_after'] = len(seen) - len(first) - res['replacements_started']
    return res


def _progress(res, sc):
    res = dict(res, scenario=sc)
    with open(os.path.join(SCRATCH, 'RESULT.tmp'), 'w') as fh:
        json.dump(res, fh)
    os.replace(os.path.join(SCRATCH, 'RESULT.tmp'), os.path.join(SCRATCH, 'RESULT'))


def budget(sc):
    """restart budget of a real pool with its real supervisor thread.  A worker is killed while it
    runs a task (never while idle: an idle worker holds the task queue's reader lock); its next
    `arm` replacements die in their initializer, before they touch the queue.  Progress is written
    down as it happens: RestartFreqExceeded takes the host down."""
    maxr = sc['maxr']
    d = tempfile.mkdtemp(prefix='s-', dir=SCRATCH)
    counter = os.path.join(d, 'deaths')
    with open(counter, 'w') as fh:
        fh.write('0')
    pool = bp.Pool(1, max_restarts=maxr, max_restart_freq=120, initializer=targets.die_at_start,
                   initargs=(counter,), lost_worker_timeout=0.5)
    time.sleep(2.5)                       # past the supervisor's start-up burst phase
    res = {'kind': 'budget', 'init_deaths': 0, 'phases': 0, 'done': False, 'job_ok': False}
    _progress(res, sc)

    def left():
        try:
            return int(open(counter).read().strip() or 0)
        except (OSError, ValueError):
            return -1

    def phase(arm):
        """busy worker killed (1 budget step), then `arm` replacements die at start"""
        mark = os.path.join(d, 'pid%d' % res['phases'])
        h = pool.apply_async(targets.announce_and_block, (mark, 120))
        victim = _wait_file(mark)
        if victim is None:
            return False
        time.sleep(0.3)                   # its acceptance has been processed (count starts afresh)
        with open(counter, 'w') as fh:
            fh.write(str(arm))
        os.kill(victim, signal.SIGKILL)
        t0 = time.monotonic()
        while time.monotonic() - t0 < (3 + 1.5 * arm) * SCALE + 6:
            n = left()
            if n >= 0 and arm - n != res.get('_seen', 0):
                res['_seen'] = arm - n
                res['init_deaths'] = res.get('_base', 0) + arm - n
                _progress({k: v for k, v in res.items() if not k.startswith('_')}, sc)
            if n == 0 and pool._pool and pool._pool[0]._is_alive() and pool._pool[0].pid != victim:
                time.sleep(1.0)           # one more supervision pass: the survivor stays
                break
            time.sleep(0.05)
        res['_base'] = res['init_deaths']
        res['_seen'] = 0
        res['phases'] += 1
        _outcome(h, 3)
        return True
    if sc['variant'] == 'exceed':
        phase(maxr)                       # 1 + maxr abnormal exits since the last acceptance: one too many
    else:
        phase(maxr - 1)                   # exactly the budget ...
        res['job_ok'] = _outcome(pool.apply_async(targets.pid_task, (1,)), 10)[0] == 'ok'
        phase(maxr - 1)                   # ... and once more after a job was accepted
        res['job_ok'] = res['job_ok'] and _outcome(pool.apply_async(targets.pid_task, (2,)), 10)[0] == 'ok'
    res['done'] = True
    return {k: v for k, v in res.items() if not k.startswith('_')}


def recycle(sc):
    n = sc['quota']
    N = sc.get('items', 6)
    t0 = time.monotonic()
    pool = bp.Pool(2, maxtasksperchild=n)
    fn = _PidSlow(0.06) if sc.get('slow') else targets.pid_task
    if sc['job'] in ('imap', 'imapu'):
        it = (pool.imap if sc['job'] == 'imap' else pool.imap_unordered)(fn, list(range(N)),
                                                                         lost_worker_timeout=0.5)
        pairs = []
        o = ('ok', None)
        try:
            for _ in range(N):
                pairs.append(it.next(timeout=6 * SCALE))
        except BTimeout:
            o = ('pending',)
        except BaseException as exc:      # noqa
            o = ('exc', type(exc).__name__, str(exc)[:200])
    elif sc['job'] == 'map':
        o = _outcome(pool.map_async(fn, list(range(N)), sc.get('chunk', 1)), 25)
        pairs = o[1] if o[0] == 'ok' else []
    else:
        hs = [pool.apply_async(fn, (i,)) for i in range(N)]
        outs = [_outcome(h, 25) for h in hs]
        o = ('ok', None) if all(x[0] == 'ok' for x in outs) else next(x for x in outs if x[0] != 'ok')
        pairs = [x[1] for x in outs if x[0] == 'ok']
    per = {}
    chunk = sc.get('chunk', 1) if sc['job'] == 'map' else 1
    for pid, x in pairs:
        per.setdefault(pid, set()).add(x // chunk)      # the quota counts tasks: a task is one part
    return {'kind': 'recycle', 'outcome': o[0], 'exc': o[1] if o[0] == 'exc' else '',
            'max_per_worker': max(len(v) for v in per.values()) if per else 0, 'quota': n,
            'secs10': int((time.monotonic() - t0) * 10),
            'items': sorted(x for _, x in pairs) == list(range(N))}


def main():
    sc = json.loads(sys.argv[1])
    fn = {'loss': loss, 'hard': hard, 'hard_map': hard_map, 'soft': soft, 'sendfail': sendfail,
          'recycle': recycle, 'idleloss': idleloss, 'discard': discard, 'budget': budget,
          'signal_one': signal_one, 'term_repop': term_repop}[sc['kind']]
    res = fn(sc)
    res['scenario'] = sc
    with open(os.path.join(SCRATCH, 'RESULT.tmp'), 'w') as fh:
        json.dump(res, fh)
    os.replace(os.path.join(SCRATCH, 'RESULT.tmp'), os.path.join(SCRATCH, 'RESULT'))
    sys.stdout.write('RESULT ' + json.dumps(res) + '\n')
    sys.stdout.flush()
    os._exit(0)


if __name__ == '__main__':
    main()
