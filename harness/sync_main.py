"""Driver process for C17's real-kernel part: real processes on billiard's Lock / Condition /
BoundedSemaphore / Event (kernel semaphores), under every start method.  One record per
scenario; judged by SyncObs.tla."""
import json
import os
import sys
import time

import billiard

from harness import targets

SCALE = float(os.environ.get('VERIF_TIME_SCALE', '1'))


def _collect(conns, bound):
    out, stuck = [], 0
    deadline = time.time() + bound
    for r in conns:
        if r.poll(max(0.05, deadline - time.time())):
            try:
                out.append(r.recv())
            except EOFError:
                stuck += 1
        else:
            stuck += 1
    return out, stuck


def producer_consumer(method, ncons, nitems, timed, how):
    ctx = billiard.get_context(method)
    cond = ctx.Condition()
    items, inside, bad, done = (ctx.RawValue('i', 0) for _ in range(4))
    ps, conns = [], []
    for _ in range(ncons):
        r, w = ctx.Pipe(duplex=False)
        p = ctx.Process(target=targets.sync_consumer, args=(cond, items, inside, bad, done, w, timed))
        p.daemon = True
        p.start()
        w.close()
        ps.append(p)
        conns.append(r)
    time.sleep(0.3)
    for k in range(nitems):
        with cond:
            inside.value += 1
            if inside.value != 1:
                bad.value += 1
            items.value += 1
            inside.value -= 1
            if how == 'notify':
                cond.notify()
            else:
                cond.notify_all()
        if k % 7 == 3:
            time.sleep(0.002)
    # production is over: drain, then release everybody
    t0 = time.time()
    while time.time() - t0 < 20 * SCALE:
        with cond:
            if items.value == 0:
                break
            cond.notify_all()
        time.sleep(0.01)
    with cond:
        done.value = 1
        cond.notify_all()
    outs, stuck = _collect(conns, 20 * SCALE)
    for p in ps:
        p.join(2)
        if p.is_alive():
            p.terminate()
    return {'kind': 'cond', 'method': method, 'how': how, 'timed': timed, 'produced': nitems,
            'consumed': sum(o[0] for o in outs), 'left': items.value, 'stuck': stuck,
            'mutex_broken': bad.value, 'timeouts': sum(o[2] for o in outs), 'waits': sum(o[1] for o in outs)}


def bounded(method, k, nproc, n):
    ctx = billiard.get_context(method)
    sem = ctx.BoundedSemaphore(k)
    holders, peak, over = ctx.Value('i', 0), ctx.Value('i', 0), ctx.Value('i', 0)
    ps, conns = [], []
    for _ in range(nproc):
        r, w = ctx.Pipe(duplex=False)
        p = ctx.Process(target=targets.sync_sem_user, args=(sem, holders, peak, over, n, w))
        p.daemon = True
        p.start()
        w.close()
        ps.append(p)
        conns.append(r)
    outs, stuck = _collect(conns, 60 * SCALE)
    for p in ps:
        p.join(2)
        if p.is_alive():
            p.terminate()
    over_released = 0
    if not stuck:
        try:
            sem.release()            # everything is back: one more release must be refused
            over_released = 1
        except ValueError:
            pass
    free = 0
    while sem.acquire(False):
        free += 1
    return {'kind': 'sem', 'method': method, 'bound': k, 'peak': peak.value, 'stuck': stuck,
            'over_released': over_released, 'free_at_end': free - over_released}


def event(method, nwait):
    ctx = billiard.get_context(method)
    ev = ctx.Event()
    ps, conns = [], []
    for _ in range(nwait):
        r, w = ctx.Pipe(duplex=False)
        p = ctx.Process(target=targets.sync_event_waiter, args=(ev, w))
        p.daemon = True
        p.start()
        w.close()
        ps.append(p)
        conns.append(r)
    time.sleep(0.5)
    early = sum(1 for r in conns if r.poll(0))       # nobody may be through before set()
    t_set = time.monotonic()
    ev.set()
    outs, stuck = _collect(conns, 20 * SCALE)
    for p in ps:
        p.join(2)
        if p.is_alive():
            p.terminate()
    was_set = ev.is_set()
    ev.clear()
    return {'kind': 'event', 'method': method, 'waiters': nwait, 'early': early, 'stuck': stuck,
            'released': sum(1 for o in outs if o[0]), 'is_set_after_set': bool(was_set),
            'is_set_after_clear': bool(ev.is_set()), 'timed_wait_on_clear': bool(ev.wait(0.05))}


def main():
    out, tier = sys.argv[1], sys.argv[2]
    thorough = tier == 'thorough'
    res = []
    for method in (('fork', 'spawn', 'forkserver') if thorough else ('fork', 'spawn')):
        n = 400 if thorough else 150
        res.append(producer_consumer(method, 3, n, False, 'notify'))
        res.append(producer_consumer(method, 3, n, True, 'notify'))
        res.append(producer_consumer(method, 2, n // 2, False, 'notify_all'))
        res.append(bounded(method, 2, 4, 60 if thorough else 25))
        res.append(event(method, 3))
    with open(out + '.tmp', 'w') as fh:
        json.dump(res, fh)
    os.replace(out + '.tmp', out)
    sys.stdout.flush()
    os._exit(0)


if __name__ == '__main__':
    main()
