"""Driver process for C07 / C08 (pool side): real pools with real worker processes are
closed+joined or terminated in many situations; what can be observed from outside is
recorded: did the call return, how long it took, are all jobs resolved with their own
results, is any worker process still there, are the helper threads still running."""
import gc
import json
import os
import sys
import tempfile
import threading
import time

import billiard
from billiard import pool as bp

from billiard.exceptions import TimeLimitExceeded, WorkerLostError

from harness import targets

HELPERS = ('Supervisor', 'TaskHandler', 'ResultHandler')


def _alive(pids):
    out = 0
    for pid in pids:
        try:
            with open('/proc/%d/stat' % pid) as fh:
                st = fh.read().split(') ')[-1].split()[0]
            if st != 'Z':
                out += 1
        except OSError:
            pass
    return out


def _helper_threads(pool, settle=1.5):
    """supervisor / task-feeder / result threads still running (they are given `settle`
    seconds: the supervisor only notices at its next 0.8 s wake-up)"""
    t0 = time.monotonic()
    while True:
        n = 0
        for t in (pool._worker_handler, pool._task_handler, pool._result_handler):
            if t._was_started and t.is_alive():
                n += 1
        if n == 0 or time.monotonic() - t0 > settle:
            return n
        time.sleep(0.05)

SCALE = float(os.environ.get('VERIF_TIME_SCALE', '1'))


def _bounded(fn, bound):
    done = []
    th = threading.Thread(target=lambda: (fn(), done.append(1)), daemon=True)
    t0 = time.monotonic()
    th.start()
    th.join(bound)
    return bool(done), time.monotonic() - t0


def close_join(sc):
    threads, procs, mt, mix, when = sc['threads'], sc['procs'], sc['quota'], sc['mix'], sc['when']
    pool = bp.Pool(procs, maxtasksperchild=mt or None, threads=threads, timeout=sc.get('limit') or None)
    pids0 = [w.pid for w in pool._pool]
    seen = set(pids0)
    pool.on_process_up = lambda w: seen.add(w.pid)
    handles = []           # (kind, handle, expected)
    n = sc['njobs']
    if 'apply' in mix:
        for i in range(n):
            handles.append(('apply', pool.apply_async(targets.slow, (i, sc['dur'])), ('ok', i)))
    if 'map' in mix and threads:
        handles.append(('map', pool.map_async(targets.uneven, list(range(n)), 1),
                        [('ok', i) for i in range(n)]))
    if 'overlimit' in mix:
        # still running, over the pool's hard time limit, while close() / join() drain: limits stay in
        # force (threads=False: finish_at_shutdown scans them), the job resolves as TimeLimitExceeded
        handles.append(('overlimit', pool.apply_async(targets.slow, (777, 40)), 'timelimit'))
    if 'dying' in mix:
        # its worker dies under it shortly after close(): the job still resolves (as lost)
        handles.append(('dying', pool.apply_async(targets.exit_after, (0.4, 3), lost_worker_timeout=1.0),
                        'lost'))
        time.sleep(0.15)
    it = None
    if 'imap' in mix and threads:
        it = pool.imap(targets.slow, list(range(n)))
    if when == 'after_first' and threads and handles:
        handles[0][1].wait(20)
    elif when == 'after_all' and threads:
        for k, h, e in handles:
            h.wait(20)
    pool.close()
    refused = pool.apply_async(targets.slow, (99,)) is None
    ok, secs = _bounded(pool.join, 45)
    for p in list(pool._pool):
        seen.add(p.pid)
    unresolved = wrong = 0
    for k, h, e in handles:
        if not h.ready():
            unresolved += 1
        else:
            try:
                if h.get(0) != e:
                    wrong += 1
            except Exception as exc:      # noqa
                exc = getattr(exc, 'exc', exc)      # pool-made failures arrive in ExceptionWithTraceback
                if not ((e == 'lost' and isinstance(exc, WorkerLostError)) or
                        (e == 'timelimit' and isinstance(exc, TimeLimitExceeded))):
                    wrong += 1
    if it is not None:
        got = []
        try:
            for _ in range(n):
                got.append(it.next(timeout=5))
        except Exception:
            pass
        if got != [('ok', i) for i in range(n)]:
            unresolved += 1
    time.sleep(0.05)
    st = {'kind': 'close_join', 'returned': ok, 'secs10': int(secs * 10), 'unresolved': unresolved,
          'wrong': wrong, 'alive': _alive(seen), 'threads': _helper_threads(pool) if ok else -1,
          'refused': refused, 'nworkers_seen': len(seen)}
    if not ok:
        try:
            pool._state = bp.TERMINATE
        except Exception:
            pass
    return st


def close_refill(sc):
    """close() arrives while the supervisor is in the middle of replacing several recycled workers
    (a slow on_process_up hook stretches the round): join() returns, no worker is left behind"""
    n = 4
    seen = set()
    pool = bp.Pool(n, maxtasksperchild=1)
    for w in pool._pool:
        seen.add(w.pid)

    def up(w):
        seen.add(w.pid)
        time.sleep(0.3)
    pool.on_process_up = up
    hs = [pool.apply_async(targets.slow, (i, 0.05)) for i in range(n)]
    for h in hs:
        h.wait(10)
    first = set(seen)
    t0 = time.time()
    while time.time() - t0 < 10 * SCALE and len(seen) == len(first):
        time.sleep(0.01)                  # the first replacement has been started
    pool.close()
    refused = pool.apply_async(targets.slow, (99,)) is None
    ok, secs = _bounded(pool.join, 45)
    for p in list(pool._pool):
        seen.add(p.pid)
    time.sleep(0.3)
    wrong = sum(1 for i, h in enumerate(hs) if not h.ready() or h.get(0) != ('ok', i))
    return {'kind': 'close_join', 'returned': ok, 'secs10': int(secs * 10), 'unresolved': 0, 'wrong': wrong,
            'alive': _alive(seen), 'threads': _helper_threads(pool) if ok else -1, 'refused': refused,
            'nworkers_seen': len(seen)}


def terminate(sc):
    threads, procs, situation = sc['threads'], sc['procs'], sc['situation']
    log = tempfile.mktemp(prefix='verif-exitlog-', dir='/var/tmp')
    os.environ['VERIF_EXIT_LOG'] = log
    pool = bp.Pool(procs, threads=threads,
                   on_process_exit=targets.slow_exit_marker if sc.get('slowexit') else targets.on_exit_marker)
    seen = set(w.pid for w in pool._pool)
    early = []
    if threads:
        early = [pool.apply_async(targets.slow, (i, 0.01)) for i in range(3)]
        for h in early:
            h.wait(10)
    running = []
    if situation == 'mid_task':
        running = [pool.apply_async(targets.slow, (100 + i, 30)) for i in range(procs)]
    elif situation == 'queued':
        running = [pool.apply_async(targets.slow, (100 + i, 30)) for i in range(procs * 3)]
    elif situation == 'swallow':
        running = [pool.apply_async(targets.swallow_then_return, (100 + i, 20)) for i in range(procs)]
    settled = situation == 'idle'
    if situation == 'idle':
        time.sleep(0.6)          # the workers have settled into waiting for a task
    if situation != 'idle':
        # every worker must be inside a task before the call (a worker still idle may be leaving on
        # its own when the signal arrives -- the F17 window); bounded wait, outcome recorded
        t0 = time.time()
        while time.time() - t0 < 10 * SCALE:
            if not threads:
                pool.handle_result_event()
            if sum(1 for h in running if h._accepted) >= procs:
                settled = True
                break
            time.sleep(0.02)
        time.sleep(0.2)
    nworkers = len(seen)
    ok, secs = _bounded(pool.terminate, 15 * SCALE)
    ok2, _ = _bounded(pool.terminate, 5 * SCALE) if ok else (False, 0)
    intact = all(h.ready() and h.get(0) == ('ok', i) for i, h in enumerate(early))
    time.sleep(0.3)
    exits = 0
    try:
        # a callback counts when it ran to its end ('<pid> begin' lines of the slow marker do not)
        exits = len(set(l.split()[0] for l in open(log) if len(l.split()) >= 2 and l.split()[1] != 'begin'))
        os.unlink(log)
    except OSError:
        pass
    return {'kind': 'terminate', 'returned': ok, 'secs10': int(secs * 10), 'again_ok': ok2,
            'alive': _alive(seen), 'threads': _helper_threads(pool) if ok else -1,
            'intact': bool(intact), 'exit_callbacks': exits, 'nworkers_seen': nworkers,
            'settled': settled, 'unresolved': 0, 'wrong': 0, 'refused': True}


def gc_path():
    """dropping the last user reference to a pool, then terminating it explicitly through a
    second reference, is harmless: results stay, the pool goes down cleanly"""
    pool = bp.Pool(2)
    keep = pool
    seen = set(w.pid for w in pool._pool)
    h = pool.apply_async(targets.slow, (1, 0.01))
    h.wait(10)
    del pool
    gc.collect()
    ok, secs = _bounded(keep.terminate, 15 * SCALE)
    time.sleep(0.3)
    return {'kind': 'terminate', 'returned': ok, 'secs10': int(secs * 10), 'again_ok': True,
            'alive': _alive(seen), 'threads': _helper_threads(keep) if ok else -1,
            'intact': h.ready() and h.get(0) == ('ok', 1),
            'exit_callbacks': 2, 'nworkers_seen': 2, 'settled': True, 'unresolved': 0, 'wrong': 0,
            'refused': True}


def main():
    out, tier = sys.argv[1], sys.argv[2]
    scen = json.loads(sys.argv[3])
    res = []
    for sc in scen:
        t0 = time.monotonic()
        try:
            st = close_refill(sc) if sc['kind'] == 'close_join' and sc.get('refill') else \
                close_join(sc) if sc['kind'] == 'close_join' else \
                gc_path() if sc['kind'] == 'gc' else terminate(sc)
        except Exception as exc:      # noqa
            st = {'kind': sc['kind'], 'returned': False, 'secs10': 0, 'error': repr(exc), 'alive': -1,
                  'threads': -1, 'unresolved': -1, 'wrong': -1, 'refused': False, 'intact': False,
                  'again_ok': False, 'exit_callbacks': 0, 'nworkers_seen': 0}
        st['scenario'] = sc
        res.append(st)
        print(sc, st, round(time.monotonic() - t0, 1), flush=True)
    with open(out + '.tmp', 'w') as fh:
        json.dump(res, fh)
    os.replace(out + '.tmp', out)
    sys.stdout.flush()
    os._exit(0)


if __name__ == '__main__':
    main()
