"""Driver process for C20's real-process part: a real SyncManager server process, proxies
in this process and in children; twin comparison, concurrent atomicity, referent life
time (through the server's own debug_info), and the authentication key."""
import json
import os
import random
import re
import sys
import time

import billiard
from billiard import managers as bm
from billiard.exceptions import AuthenticationError

from harness import targets


def refcounts(m):
    """ident -> refcount as the server reports them"""
    out = {}
    for line in m._debug_info().splitlines():
        mm = re.match(r'\s*([0-9a-f]+):\s+refcount=(\d+)', line)
        if mm:
            out[mm.group(1)] = int(mm.group(2))
    return out


def twin_run(m, rng, nops):
    bad = []
    n = 0
    # list
    p, t = m.list(), []
    for _ in range(nops):
        op = rng.choice(['append', 'pop', 'len', 'getitem', 'setitem', 'extend', 'count', 'reverse',
                         'insert', 'remove', 'index', 'contains', 'slice'])
        v = rng.randrange(5)
        i = rng.randrange(-2, 6)
        n += 1

        def both(f):
            rs = []
            for obj in (p, t):
                try:
                    rs.append(('ok', f(obj)))
                except Exception as exc:      # noqa
                    rs.append(('exc', type(exc).__name__))
            return rs
        f = {'append': lambda o: o.append(v), 'pop': lambda o: o.pop(), 'len': lambda o: len(o),
             'getitem': lambda o: o[i], 'setitem': lambda o: o.__setitem__(i, v),
             'extend': lambda o: o.extend([v, v + 1]), 'count': lambda o: o.count(v),
             'reverse': lambda o: o.reverse(), 'insert': lambda o: o.insert(i, v),
             'remove': lambda o: o.remove(v), 'index': lambda o: o.index(v),
             'contains': lambda o: v in o, 'slice': lambda o: o[1:3]}[op]
        a, b = both(f)
        if a != b or list(p) != t:
            bad.append('list.%s: proxy %r local %r' % (op, a, b))
    # dict
    p, t = m.dict(), {}
    for _ in range(nops):
        op = rng.choice(['set', 'get', 'del', 'len', 'pop', 'setdefault', 'update', 'contains', 'keys',
                         'getitem', 'clear', 'popitem_len'])
        k, v = rng.randrange(4), rng.randrange(9)
        n += 1
        f = {'set': lambda o: o.__setitem__(k, v), 'get': lambda o: o.get(k), 'del': lambda o: o.__delitem__(k),
             'len': lambda o: len(o), 'pop': lambda o: o.pop(k), 'setdefault': lambda o: o.setdefault(k, v),
             'update': lambda o: o.update({k: v, k + 1: v}), 'contains': lambda o: k in o,
             'keys': lambda o: sorted(o.keys()), 'getitem': lambda o: o[k], 'clear': lambda o: o.clear(),
             'popitem_len': lambda o: (o.popitem() and None) if False else len(o)}[op]
        rs = []
        for obj in (p, t):
            try:
                rs.append(('ok', f(obj)))
            except Exception as exc:      # noqa
                rs.append(('exc', type(exc).__name__))
        if rs[0] != rs[1] or dict(p.items()) != t:
            bad.append('dict.%s: proxy %r local %r' % (op, rs[0], rs[1]))
    # Namespace, Value, Array, Lock, Queue
    ns = m.Namespace()
    ns.a = 1
    ns.b = [1, 2]
    n += 4
    if ns.a != 1 or ns.b != [1, 2]:
        bad.append('Namespace attribute round trip')
    try:
        ns.missing
        bad.append('Namespace missing attribute did not raise')
    except AttributeError:
        pass
    del ns.a
    try:
        ns.a
        bad.append('Namespace deleted attribute still there')
    except AttributeError:
        pass
    v = m.Value('i', 7)
    v.value += 5
    n += 2
    if v.value != 12 or v.get() != 12:
        bad.append('Value')
    arr = m.Array('i', [1, 2, 3])
    arr[1] = 9
    n += 2
    if list(arr) != [1, 9, 3] or len(arr) != 3:
        bad.append('Array')
    lk = m.Lock()
    n += 3
    if not lk.acquire(False) or lk.acquire(False):
        bad.append('Lock acquire semantics')
    lk.release()
    try:
        lk.release()
        bad.append('Lock double release accepted')
    except Exception:
        pass
    q = m.Queue(2)
    q.put(1)
    q.put(2)
    n += 5
    try:
        q.put(3, False)
        bad.append('Queue Full not raised')
    except Exception as exc:
        if type(exc).__name__ != 'Full':
            bad.append('Queue Full raised as %s' % type(exc).__name__)
    if q.get() != 1 or q.get() != 2 or not q.empty():
        bad.append('Queue FIFO')
    return n, bad


def lifetime(m, ctx):
    """observed trace in Mgr.tla's projection: referent survives while the child holds a proxy"""
    obs = []
    ids = {}
    prox = set()
    nprox = [0]

    def aid(ident):
        if ident not in ids:
            ids[ident] = len(ids) + 1
        return ids[ident]

    base = set(refcounts(m))

    def snap(act, last=('none', 0)):
        rc = {k: v for k, v in refcounts(m).items() if k not in base}
        live = {aid(k): v for k, v in rc.items()}
        nobj = len(ids)
        obs.append({'act': act, 'state': {
            'objs': sorted(live), 'ref': [live.get(o, 0) for o in range(1, nobj + 1)],
            'len': [0 if o in live else -1 for o in range(1, nobj + 1)], 'nobj': nobj,
            'prox': sorted([list(p) for p in prox]), 'nprox': nprox[0], 'last': list(last)}})
    # the child is forked before the proxy exists, so it inherits no copy of it
    r1, w1 = ctx.Pipe(duplex=False)
    r2, w2 = ctx.Pipe(duplex=False)
    ch = ctx.Process(target=targets.mgr_child, args=(r1, w2))
    ch.start()
    base.update(refcounts(m))
    snap({'name': 'Init'})
    p = m.list()
    o = aid(p._id)
    nprox[0] += 1
    mine = (1, o, nprox[0])
    prox.add(mine)
    snap({'name': 'Create', 'c': 1, 'o': o}, ('created', o))
    w1.send(p)
    if not r2.poll(30) or r2.recv() != 'have':
        raise RuntimeError('child did not receive the proxy')
    nprox[0] += 1
    theirs = (2, o, nprox[0])
    prox.add(theirs)
    snap({'name': 'Share', 'p': list(mine), 'c': 2}, ('created', o))
    ident = p._id
    p._close()
    del p
    prox.discard(mine)
    snap({'name': 'Drop', 'p': list(mine)}, ('created', o))
    w1.send('append')
    ok = r2.poll(30) and r2.recv() == 'ok'
    snap({'name': 'Call', 'p': list(theirs), 'op': 'append'}, ('return', 0) if ok else ('lost', 0))
    obs[-1]['state']['len'] = [1 if x == 0 else x for x in obs[-1]['state']['len']]
    w1.send('drop')
    r2.poll(30) and r2.recv()
    prox.discard(theirs)
    time.sleep(0.1)
    snap({'name': 'Drop', 'p': list(theirs)}, ('return', 0))
    w1.send('bye')
    ch.join(10)
    return obs


def lifetime_inherited(m, method):
    """the same history with a child of another start method that gets the proxy as an argument
    (rebuilt while the child is bootstrapped): Create, Share, Drop (parent), Call (child), Drop"""
    ctx = billiard.get_context(method)
    obs, ids, prox, nprox = [], {}, set(), [0]
    base = set(refcounts(m))

    def aid(ident):
        if ident not in ids:
            ids[ident] = len(ids) + 1
        return ids[ident]

    def snap(act, last=('none', 0), length=0):
        rc = {k: v for k, v in refcounts(m).items() if k not in base}
        live = {aid(k): v for k, v in rc.items()}
        nobj = len(ids)
        obs.append({'act': act, 'state': {
            'objs': sorted(live), 'ref': [live.get(o, 0) for o in range(1, nobj + 1)],
            'len': [length if o in live else -1 for o in range(1, nobj + 1)], 'nobj': nobj,
            'prox': sorted([list(p) for p in prox]), 'nprox': nprox[0], 'last': list(last)}})
    snap({'name': 'Init'})
    p = m.list()
    o = aid(p._id)
    nprox[0] += 1
    mine = (1, o, nprox[0])
    prox.add(mine)
    snap({'name': 'Create', 'c': 1, 'o': o}, ('created', o))
    r1, w1 = ctx.Pipe(duplex=False)
    r2, w2 = ctx.Pipe(duplex=False)
    ch = ctx.Process(target=targets.mgr_child_arg, args=(p, r1, w2))
    ch.start()
    for attr in ('_args', '_kwargs'):           # the parent's Process object must not keep the proxy alive
        try:
            setattr(ch, attr, () if attr == '_args' else {})
        except Exception:
            pass
    if not r2.poll(60) or r2.recv() != 'have':
        raise RuntimeError('child did not come up')
    nprox[0] += 1
    theirs = (2, o, nprox[0])
    prox.add(theirs)
    snap({'name': 'Share', 'p': list(mine), 'c': 2}, ('created', o))
    p._close()
    del p
    import gc
    gc.collect()
    prox.discard(mine)
    time.sleep(0.1)
    snap({'name': 'Drop', 'p': list(mine)}, ('created', o))
    w1.send('append')
    ans = r2.recv() if r2.poll(30) else 'silent'
    snap({'name': 'Call', 'p': list(theirs), 'op': 'append'}, ('return', 0) if ans == 'ok' else ('lost', 0),
         length=1)
    w1.send('drop')
    r2.poll(30) and r2.recv()
    prox.discard(theirs)
    time.sleep(0.1)
    snap({'name': 'Drop', 'p': list(theirs)}, ('return', 0), length=1)
    w1.send('bye')
    ch.join(10)
    return obs


class _HM(bm.BaseManager):
    pass


_HM.register('Holder', targets.Holder, method_to_typeid={'child': 'Inner'})
_HM.register('Inner', create_method=False)


def shared_twice():
    """one server object handed out twice (a method whose result type is registered without a
    constructor): it lives as long as either proxy does"""
    m = _HM(ctx=billiard.get_context('fork'))
    m.start()
    try:
        try:
            h = m.Holder()
            a = h.child()
            b = h.child()
            same = a._id == b._id
            n0 = m._number_of_objects()
            a.bump()
            del a
            import gc
            gc.collect()
            time.sleep(0.1)
            n1 = m._number_of_objects()
            alive = b.bump() == 2 and h.child().bump() == 3      # the holder itself is still there too
            err = ''
        except Exception as exc:      # noqa
            return {'same_object': False, 'objects_before': -1, 'objects_after_drop': -2, 'alive': False,
                    'err': type(exc).__name__}
        return {'same_object': same, 'objects_before': n0, 'objects_after_drop': n1, 'alive': alive, 'err': err}
    finally:
        try:
            m.shutdown()
        except Exception:
            pass


def lock_timeouts(m):
    """acquire() with every shape of blocking / timeout argument on a held lock or exhausted
    semaphore, compared with the local threading object; a call that does not come back within
    3 s counts as 'blocked'"""
    import threading
    bad = []
    shapes = [((False,), {}), ((True, 0), {}), ((), {'timeout': 0}), ((True, 0.05), {}), ((), {'timeout': 0.05}),
              ((False,), {})]
    for name in ('Lock', 'Semaphore', 'BoundedSemaphore'):
        remote = getattr(m, name)() if name == 'Lock' else getattr(m, name)(1)
        local = getattr(threading, name)() if name == 'Lock' else getattr(threading, name)(1)
        remote.acquire()
        local.acquire()
        for args, kw in shapes:
            out = []
            th = threading.Thread(target=lambda: out.append(remote.acquire(*args, **kw)), daemon=True)
            th.start()
            th.join(3.0)
            got = out[0] if out else 'blocked'
            want = local.acquire(*args, **kw)
            if got != want:
                bad.append('%s.acquire%r%r on a held one: proxy %r, local object %r' % (name, args, kw, got, want))
            if got == 'blocked':
                remote.release()          # let the stuck call finish, then take the unit back
                th.join(5)
        remote.release()
        local.release()
    return bad


def hostile(m):
    """a client without the key that ignores the server's FAILURE and carries on with the protocol"""
    from billiard import connection as bc
    out = {'served': False, 'how': ''}
    try:
        c = bc.SocketClient(m.address) if hasattr(bc, 'SocketClient') else None
        if c is None:
            return {'served': False, 'how': 'no raw client'}
        msg = c.recv_bytes(256)                   # the server's challenge
        c.send_bytes(b'\x00' * 16)                # a digest we cannot know
        try:
            c.recv_bytes(256)                     # FAILURE -- ignored
            c.send_bytes(bc.CHALLENGE + b'x' * 20)     # our own challenge, as if nothing had happened
            if c.poll(3):
                c.recv_bytes(256)                 # the server answers it?
                c.send_bytes(bc.WELCOME)
                c.send((None, 'number_of_objects', (), {}))
                if c.poll(3):
                    out = {'served': True, 'how': repr(c.recv())[:80]}
        except (EOFError, OSError) as exc:
            out['how'] = 'dropped:' + type(exc).__name__
    except Exception as exc:      # noqa
        out['how'] = 'error:' + type(exc).__name__
    return out


def concurrent(m, ctx, nproc, n):
    lst, d, val, lock, errs = m.list(), m.dict(), m.Value('i', 0), m.Lock(), m.list()
    len(lst)          # this thread has talked to the server before its children are forked
    ps = [ctx.Process(target=targets.mgr_appender, args=(lst, d, val, lock, n, w, errs)) for w in range(nproc)]
    for p in ps:
        p.start()
    # the parent is a client like the others, at the same time, from the thread that forked them
    th_err = []

    def own():
        try:
            targets.mgr_appender(lst, d, val, lock, n, nproc, errs)
        except Exception as exc:      # noqa
            th_err.append('%s: %s' % (type(exc).__name__, str(exc)[:100]))
    own()
    for p in ps:
        p.join(120)
    stuck = [p.pid for p in ps if p.exitcode is None]
    for p in ps:
        if p.exitcode is None:
            p.terminate()
    got = list(lst)
    perwho_ok = all([k for (w, k) in got if w == who] == list(range(n)) for who in range(nproc + 1))
    return {'len': len(got), 'distinct': len(set(got)), 'dict': len(d) - (nproc + 1), 'value': val.value,
            'expected': (nproc + 1) * n, 'per_client_order': perwho_ok,
            'crossed_replies': [list(e) for e in list(errs)[:10]] + th_err, 'stuck': stuck,
            'exitcodes': [p.exitcode for p in ps]}


def wrong_key(m):
    out = {}
    try:
        m2 = bm.SyncManager(address=m.address, authkey=b'not-the-key')
        m2.connect()
        out['connect'] = 'accepted'
    except AuthenticationError:
        out['connect'] = 'refused'
    except Exception as exc:      # noqa
        out['connect'] = 'error:' + type(exc).__name__
    try:
        m3 = bm.SyncManager(address=m.address, authkey=m._authkey)
        m3.connect()
        out['right_key'] = 'accepted'
    except Exception as exc:      # noqa
        out['right_key'] = 'error:' + type(exc).__name__
    return out


def main():
    out, tier, seed = sys.argv[1], sys.argv[2], int(sys.argv[3])
    thorough = tier == 'thorough'
    rng = random.Random(seed)
    res = {}
    ctx = billiard.get_context('fork')
    m = ctx.Manager()
    try:
        res['errors'] = []

        def guarded(name, fn, default):
            # an operation that is valid on the local object must not raise through the proxy
            try:
                return fn()
            except Exception as exc:      # noqa
                res['errors'].append('%s: %s: %s' % (name, type(exc).__name__, str(exc)[:120]))
                return default
        n, bad = guarded('twin', lambda: twin_run(m, rng, 600 if thorough else 150), (0, []))
        res['twin'] = {'ops': n, 'bad': bad[:20]}
        res['lifetime'] = [x for x in (guarded('lifetime', lambda: lifetime(m, ctx), None)
                                       for _ in range(3 if thorough else 2)) if x]
        res['concurrent'] = guarded('concurrent', lambda: concurrent(m, ctx, 4, 60 if thorough else 25),
                                    {'len': -1, 'distinct': -1, 'dict': -1, 'value': -1, 'expected': 0,
                                     'per_client_order': False})
        res['key'] = wrong_key(m)
        res['twin']['bad'] += guarded('lock_timeouts', lambda: lock_timeouts(m), [])
        res['hostile'] = hostile(m)
        for meth in (('spawn', 'forkserver') if thorough else ('spawn',)):
            x = guarded('lifetime-' + meth, lambda: lifetime_inherited(m, meth), None)
            if x:
                res['lifetime'].append(x)
    finally:
        try:
            m.shutdown()
        except Exception:
            pass
    res['shared_twice'] = shared_twice()
    with open(out + '.tmp', 'w') as fh:
        json.dump(res, fh)
    os.replace(out + '.tmp', out)
    sys.stdout.flush()
    os._exit(0)


if __name__ == '__main__':
    main()
