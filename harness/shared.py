"""Binding A for Shared.tla: the real billiard.sharedctypes (RawValue / RawArray / copy)
over a real, scaled billiard.heap.Heap; arena memory is read back byte by byte."""
import ctypes
import gc

import billiard.heap as bh
import billiard.sharedctypes as sc

from .heap import _MmapShim


class SharedAdapter:
    def __init__(self, consts):
        self.c = consts

    def reset(self, st):
        c = self.c
        self._real_mmap = bh.mmap
        self._real_heap = bh.BufferWrapper._heap
        bh.mmap = _MmapShim(c['Page'])
        self.h = bh.Heap(size=c['InitSize'])
        self.h._alignment = c['Align']
        bh.BufferWrapper._heap = self.h
        self.objs = []          # [pyobj, size]

    def close(self):
        self.objs = []
        bh.mmap = self._real_mmap
        bh.BufferWrapper._heap = self._real_heap
        self.h = None

    def _unblk(self, blk):
        a, s, e = blk
        for i, ar in enumerate(self.h._arenas):
            if ar is a:
                return [i + 1, s, e]
        return [-1, s, e]

    def _block_of(self, obj):
        return self._unblk(obj._wrapper._state[0])

    def _find(self, b):
        for i, (o, size) in enumerate(self.objs):
            if self._block_of(o) == list(b):
                return i
        raise AssertionError('no live object at block %r' % (b,))

    def step(self, act):
        n = act['name']
        if n == 'Malloc':            # New / Copy are labelled by the heap action they contain
            size = act['size']
            how = self._pending
            raise AssertionError('unlabelled allocation')
        if n == 'New':
            size, init, how = act['size'], act['init'], act['how']
            t = ctypes.c_ubyte * size
            if how == 'value':
                o = sc.RawValue(t, *([init] * size)) if init else sc.RawValue(t)
            elif how == 'zeros':
                o = sc.RawArray('B', size)
            else:
                o = sc.RawArray('B', [init] * size)
            self.objs.append([o, size])
            return dict(act, got=self._block_of(o))
        if n == 'Copy':
            i = self._find(act['src'])
            o = sc.copy(self.objs[i][0])
            self.objs.append([o, self.objs[i][1]])
            return dict(act, got=self._block_of(o))
        if n == 'Free':              # Drop
            i = self._find(act['b'])
            del self.objs[i]          # refcount -> BufferWrapper finalizer -> heap.free
            return None
        if n == 'Write':
            i = self._find(act['b'])
            o, size = self.objs[i]
            for k in range(size):
                o[k] = act['v']
            return None
        raise ValueError(n)

    def project(self):
        h = self.h
        lens = sorted(h._len_to_seq)
        objs = []
        for o, size in self.objs:
            vals = set(o[k] for k in range(size))
            v = vals.pop() if len(vals) == 1 else (0 if not vals else -1)
            objs.append([self._block_of(o), size, v])
        return {'arenas': [a.size for a in h._arenas],
                'fl': [[l, [self._unblk(b) for b in h._len_to_seq[l]]] for l in lens],
                'live': sorted(self._unblk(b) for b in h._allocated_blocks),
                'pend': [self._unblk(b) for b in h._pending_free_blocks], 'nsize': h._size,
                'mem': [list(bytes(a.buffer[:a.size])) for a in h._arenas],
                'objs': sorted(objs)}

    def normalize(self, st):
        st = dict(st)
        st['live'] = sorted(st['live'])
        st['objs'] = sorted(st['objs'])
        return st
