"""Importable targets for child processes started by the real-process harnesses
(spawn / forkserver children cannot find functions defined in __main__)."""
import os
import signal
import sys
import time


def child(rfd_or_conn, how, witness=None):
    """block until released, then leave by the requested exit path"""
    # rfd_or_conn: a billiard Connection carried to the child; blocks until the driver sends
    try:
        rfd_or_conn.recv_bytes()
    except EOFError:
        pass
    kind = how[0]
    if kind == 'return':
        return
    if kind == 'raise':
        sys.stderr = open(os.devnull, 'w')
        raise RuntimeError('child failure requested')
    if kind == 'exit':
        sys.exit(how[1])
    if kind == 'signal':
        signal.signal(how[1], signal.SIG_DFL) if how[1] not in (signal.SIGKILL, signal.SIGSTOP) else None
        os.kill(os.getpid(), how[1])
        time.sleep(30)


def try_start_in_child(conn, proc):
    """a process object may be started only by the process that created it"""
    try:
        proc.start()
        conn.send('started')
    except AssertionError:
        conn.send('refused')
    except Exception as exc:      # noqa
        conn.send('error:%r' % (exc,))


def locked_incr(v, seq, n, conn):
    """n read-modify-write sequences on v, each under v's own lock; seq (protected by the same
    lock) numbers them in the order the lock was held"""
    log = []
    for _ in range(n):
        with v.get_lock():
            r = v.value
            s = seq.value
            seq.value = s + 1
            if (s % 7) == 3:
                time.sleep(0.0005)      # widen the window an unlocked writer would need
            v.value = r + 1
            log.append((s, r, r + 1))
    conn.send(log)
    conn.close()


def visibility(arr, conn):
    """child side of the two-way visibility handshake"""
    t0 = time.time()
    while arr[0] != 17 and time.time() - t0 < 10:
        time.sleep(0.001)
    saw = arr[0]
    arr[1] = 23
    conn.send(saw)
    conn.close()
