"""Importable targets for child processes started by the real-process harnesses
(spawn / forkserver children cannot find functions defined in __main__)."""
import os
import signal
import sys
import time


def child(rfd_or_conn, how, witness=None):
    """block until released, then leave by the requested exit path"""
    # rfd_or_conn: a billiard Connection carried to the child; blocks until the driver sends
    try:
        rfd_or_conn.recv_bytes()
    except EOFError:
        pass
    kind = how[0]
    if kind == 'return':
        return
    if kind == 'raise':
        sys.stderr = open(os.devnull, 'w')
        raise RuntimeError('child failure requested')
    if kind == 'exit':
        sys.exit(how[1])
    if kind == 'signal':
        signal.signal(how[1], signal.SIG_DFL) if how[1] not in (signal.SIGKILL, signal.SIGSTOP) else None
        os.kill(os.getpid(), how[1])
        time.sleep(30)


def try_start_in_child(conn, proc):
    """a process object may be started only by the process that created it"""
    try:
        proc.start()
        conn.send('started')
    except AssertionError:
        conn.send('refused')
    except Exception as exc:      # noqa
        conn.send('error:%r' % (exc,))


def locked_incr(v, seq, n, conn):
    """n read-modify-write sequences on v, each under v's own lock; seq (protected by the same
    lock) numbers them in the order the lock was held"""
    log = []
    for _ in range(n):
        with v.get_lock():
            r = v.value
            s = seq.value
            seq.value = s + 1
            if (s % 7) == 3:
                time.sleep(0.0005)      # widen the window an unlocked writer would need
            v.value = r + 1
            log.append((s, r, r + 1, time.monotonic()))     # the instant lies inside this holder's section
    conn.send(log)
    conn.close()


def private_array(n, conn_in, conn_out):
    """a forked child allocates a shared array of its own, fills it, waits, and reports whether it
    still holds what it wrote"""
    import billiard.sharedctypes as sc
    mine = sc.RawArray('B', n)
    for i in range(n):
        mine[i] = 0x5A
    conn_out.send('filled')
    conn_in.recv()
    conn_out.send(all(x == 0x5A for x in mine))
    conn_out.close()


def visibility(arr, conn):
    """child side of the two-way visibility handshake"""
    t0 = time.time()
    while arr[0] != 17 and time.time() - t0 < 10:
        time.sleep(0.001)
    saw = arr[0]
    arr[1] = 23
    conn.send(saw)
    conn.close()


def relay(method, val, dbl, conn):
    """middle process of a two-hop hand-over: it only *received* the shared objects, and hands them
    on to a process of its own (same start method)"""
    import billiard
    ctx = billiard.get_context(method)
    with val.get_lock():
        val.value += 100
    p = ctx.Process(target=relay_end, args=(val, dbl))
    p.start()
    p.join(30)
    with val.get_lock():
        val.value += 100
    conn.send(p.exitcode)
    conn.close()


def relay_end(val, dbl):
    for _ in range(50):
        with val.get_lock():
            val.value += 1
    with dbl.get_lock():
        dbl.value += 0.5


def _us():
    return int(time.monotonic() * 1e6)


def q_producer(q, p, n, size, conn, nowait=False, signals=False):
    """events are streamed to the driver as they happen, so that a party that gets stuck in a
    call still leaves its history behind; ('done', ...) ends the stream.
    signals: a periodic signal with a Python-level handler keeps arriving while the producer is
    inside put() (a blocked write() that has transferred some bytes then returns short)"""
    if signals:
        import signal
        signal.signal(signal.SIGALRM, lambda *a: None)
        signal.setitimer(signal.ITIMER_REAL, 0.003, 0.003)
    for k in range(1, n + 1):
        item = (p, k, bytes([k % 251]) * size)
        while True:
            t0 = _us()
            try:
                if nowait:
                    q.put(item, False)
                else:
                    q.put(item)
                conn.send(('ev', {'k': 'put', 'who': p, 'p': p, 'n': k, 't0': t0, 't1': _us(), 'to': 0}))
                break
            except Exception as exc:       # queue.Full
                if type(exc).__name__ != 'Full':
                    conn.send(('ev', {'k': 'put_error', 'who': p, 'p': p, 'n': k, 't0': t0, 't1': _us(),
                                      'to': 0}))
                    conn.send(('done', 0))
                    conn.close()
                    return
                conn.send(('ev', {'k': 'full', 'who': p, 'p': p, 'n': k, 't0': t0, 't1': _us(), 'to': 0}))
                time.sleep(0.002)
    if signals:
        import signal
        signal.setitimer(signal.ITIMER_REAL, 0, 0)
    conn.send(('done', 0))
    conn.close()


def q_consumer(q, c, n, size, conn, timeout=None, joinable=False, delay=0.0):
    got = 0
    bad = 0
    while got < n:
        t0 = _us()
        try:
            item = q.get() if timeout is None else q.get(True, timeout)
        except Exception as exc:           # queue.Empty
            if type(exc).__name__ != 'Empty':
                # EOFError, an unpickling error ...: the stream is damaged
                conn.send(('ev', {'k': 'get_error', 'who': c, 'p': 0, 'n': 0, 't0': t0, 't1': _us(), 'to': 0}))
                break
            conn.send(('ev', {'k': 'empty', 'who': c, 'p': 0, 'n': 0, 't0': t0, 't1': _us(),
                              'to': int(timeout * 1e6)}))
            continue
        t1 = _us()
        try:
            p, k, payload = item
            if payload != bytes([k % 251]) * size:
                bad += 1
        except Exception:
            p, k = 0, 0
            bad += 1
        conn.send(('ev', {'k': 'get', 'who': c, 'p': p, 'n': k, 't0': t0, 't1': t1, 'to': 0}))
        got += 1
        if delay and not joinable:
            time.sleep(delay)
        if joinable:
            if delay:
                time.sleep(delay)
            t0 = _us()
            q.task_done()
            conn.send(('ev', {'k': 'task_done', 'who': c, 'p': p, 'n': k, 't0': t0, 't1': _us(), 'to': 0}))
    conn.send(('done', bad))
    conn.close()


def q_joiner(q, who, conn):
    t0 = _us()
    conn.send(('ev', {'k': 'join_begin', 'who': who, 'p': 0, 'n': 0, 't0': t0, 't1': t0, 'to': 0}))
    q.join()
    conn.send(('ev', {'k': 'join', 'who': who, 'p': 0, 'n': 0, 't0': t0, 't1': _us(), 'to': 0}))
    conn.send(('done', 0))
    conn.close()


def conn_sender(w, sizes, doomed, sig=False):
    """sends message m of sizes[m-1] bytes (alternating the send API), then closes; with sig, a
    handled signal arrives every 10 ms (a write cut short by it must be completed)"""
    from harness.conn import payload
    if sig:
        import signal
        signal.signal(signal.SIGALRM, lambda *a: None)
        signal.setitimer(signal.ITIMER_REAL, 0.01, 0.01)
    for m, n in enumerate(sizes, 1):
        data = payload(m, n)
        if n and n % 4 == 0 and m % 3 == 0:
            import array
            w.send_bytes(array.array('I', b'abcd' + data + b'wxyz'), 4, n)     # 4-byte items
        elif m % 2:
            w.send_bytes(data)
        else:
            w.send_bytes(memoryview(b'##' + data + b'!!'), 2, n)
    w.close()
    if doomed:
        time.sleep(30)


def nested_scenario(conn, method, how, si):
    from harness import procs
    try:
        obs = procs.scenario(method, tuple(how), procs.SCHEDULES[si])
    except Exception as exc:      # noqa
        st = {'method': method, 'how': list(how), 'phase': 'new'}
        obs = [{'act': {'e': 'init'}, 'state': st},
               {'act': {'e': 'harness_error', 'what': type(exc).__name__}, 'state': st}]
    conn.send(obs)
    conn.close()


def mgr_child(conn_in, conn_out):
    """holds a proxy received from the parent (pickled through a pipe, rebuilt here);
    operates on it on request; drops it when told"""
    proxy = conn_in.recv()
    conn_out.send('have')
    while True:
        cmd = conn_in.recv()
        if cmd == 'append':
            proxy.append('from-child')
            conn_out.send('ok')
        elif cmd == 'drop':
            # the last references in this process: our parameter and the Process object's args
            import gc
            del proxy
            gc.collect()
            conn_out.send('dropped')
            break
    conn_in.recv()          # stay alive until released


def mgr_child_arg(proxy, conn_in, conn_out):
    """like mgr_child, but the proxy arrives as an argument of the process (inherited / rebuilt
    while the process is bootstrapped)"""
    conn_out.send('have')
    while True:
        cmd = conn_in.recv()
        if cmd == 'append':
            try:
                proxy.append('from-child')
                conn_out.send('ok')
            except Exception as exc:      # noqa
                conn_out.send('error:' + type(exc).__name__)
        elif cmd == 'drop':
            import gc
            import billiard
            me = billiard.current_process()     # the process object's argument tuple holds the proxy too
            for attr, empty in (('_args', ()), ('_kwargs', {})):
                if hasattr(me, attr):
                    setattr(me, attr, empty)
            del proxy
            gc.collect()
            conn_out.send('dropped')
            break
    conn_in.recv()


class Inner:
    def __init__(self):
        self.n = 0

    def bump(self):
        self.n += 1
        return self.n


class Holder:
    """hands out one and the same inner object every time"""

    def __init__(self):
        self.inner = Inner()

    def child(self):
        return self.inner


def mgr_appender(lst, d, val, lock, n, who, errs=None):
    d[('id', who)] = who
    for k in range(n):
        lst.append((who, k))
        d[(who, k)] = k
        with lock:
            val.value = val.value + 1
        if errs is not None:
            # a reply that only this client can be owed: nobody else asks for this key
            got = d.get(('id', who))
            if got != who:
                errs.append((who, k, repr(got)[:40]))


def slow(x, d=0.05):
    time.sleep(d)
    return ('ok', x)


def uneven(x):
    """the first part takes much longer than the others"""
    time.sleep(0.5 if x == 0 else 0.01)
    return ('ok', x)


def swallow_then_return(x, d=1.0):
    """a task with its own catch-all handler: a termination signal raised inside it is
    swallowed once; the task then returns promptly"""
    try:
        time.sleep(d)
    except BaseException:
        pass
    return ('ok', x)


def on_exit_marker(pid, code):
    try:
        fd = os.open(os.environ.get('VERIF_EXIT_LOG', '/dev/null'), os.O_WRONLY | os.O_APPEND | os.O_CREAT)
        os.write(fd, b'%d %d\n' % (pid, code if isinstance(code, int) else -1))
        os.close(fd)
    except Exception:
        pass


def slow_exit_marker(pid, code):
    """an exit callback that takes a while: writes 'begin', works 0.3 s, writes 'end'"""
    path = os.environ.get('VERIF_EXIT_LOG', '/dev/null')
    try:
        fd = os.open(path, os.O_WRONLY | os.O_APPEND | os.O_CREAT)
        os.write(fd, b'%d begin\n' % pid)
        time.sleep(0.3)
        os.write(fd, b'%d end\n' % pid)
        os.close(fd)
    except OSError:
        pass


def slow_process_up(w):
    time.sleep(0.3)


def announce_and_block(path, secs=60, value=None):
    """tell the driver which process runs this task, then stay in task code"""
    with open(path, 'w') as fh:
        fh.write(str(os.getpid()))
    t0 = time.time()
    while time.time() - t0 < secs:
        time.sleep(0.01)
    return ('ok', value)


def announce_and_block_stubborn(path, secs=60):
    """like announce_and_block, but the termination signal is ignored: only SIGKILL ends it"""
    import signal
    signal.signal(signal.SIGTERM, signal.SIG_IGN)
    return announce_and_block(path, secs)


def become_group_leader():
    os.setpgrp()


def announce_and_exit(path, code):
    with open(path, 'w') as fh:
        fh.write(str(os.getpid()))
    time.sleep(0.05)
    with open(path + '.t', 'w') as fh:       # CLOCK_MONOTONIC is system-wide: a lower bound for the death
        fh.write(repr(time.monotonic()))
    os._exit(code)


def die_at_start(path):
    """pool initializer: while the counter in `path` is positive, count it down and die"""
    try:
        n = int(open(path).read().strip() or 0)
    except (OSError, ValueError):
        n = 0
    if n > 0:
        with open(path + '.tmp', 'w') as fh:
            fh.write(str(n - 1))
        os.replace(path + '.tmp', path)
        os._exit(3)


def exit_after(d, code):
    time.sleep(d)
    os._exit(code)


def pid_task(x, d=0.02):
    time.sleep(d)
    return (os.getpid(), x)


def soft_catcher(path, secs=10):
    """records every SoftTimeLimitExceeded it sees, swallows it and returns a value"""
    from billiard.exceptions import SoftTimeLimitExceeded
    seen = 0
    t0 = time.time()
    while time.time() - t0 < secs:
        try:
            time.sleep(0.01)
        except SoftTimeLimitExceeded:
            seen += 1
            with open(path, 'a') as fh:
                fh.write('%d\n' % os.getpid())
            if seen >= 1 and time.time() - t0 > 1.6:
                break
    return ('caught', seen, os.getpid())


# ---- C17 real-process parties ------------------------------------------------------------
def sync_consumer(cond, items, inside, bad, done, out, timed):
    """takes items under the condition until told that production is over; checks mutual
    exclusion of the condition's lock on the way"""
    got = waits = timeouts = 0
    while True:
        with cond:
            inside.value += 1
            if inside.value != 1:
                bad.value += 1
            while items.value == 0 and not done.value:
                inside.value -= 1
                waits += 1
                r = cond.wait(0.05) if timed else cond.wait()
                if timed and not r:
                    timeouts += 1
                inside.value += 1
                if inside.value != 1:
                    bad.value += 1
            if items.value > 0:
                items.value -= 1
                got += 1
                fin = False
            else:
                fin = True
            inside.value -= 1
        if fin:
            break
    out.send((got, waits, timeouts))
    out.close()


def sync_sem_user(sem, holders, peak, over, n, out):
    """n times: take the (bounded) semaphore, note how many hold it, give it back"""
    for _ in range(n):
        sem.acquire()
        with holders.get_lock():
            holders.value += 1
            if holders.value > peak.value:
                peak.value = holders.value
        time.sleep(0.001)
        with holders.get_lock():
            holders.value -= 1
        sem.release()
    out.send('done')
    out.close()


def sync_event_waiter(ev, out):
    t0 = time.monotonic()
    r = ev.wait(20)
    out.send((bool(r), time.monotonic() - t0))
    out.close()
