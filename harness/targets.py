"""Importable targets for child processes started by the real-process harnesses
(spawn / forkserver children cannot find functions defined in __main__)."""
import os
import signal
import sys
import time


def child(rfd_or_conn, how, witness=None):
    """block until released, then leave by the requested exit path"""
    # rfd_or_conn: a billiard Connection carried to the child; blocks until the driver sends
    try:
        rfd_or_conn.recv_bytes()
    except EOFError:
        pass
    kind = how[0]
    if kind == 'return':
        return
    if kind == 'raise':
        sys.stderr = open(os.devnull, 'w')
        raise RuntimeError('child failure requested')
    if kind == 'exit':
        sys.exit(how[1])
    if kind == 'signal':
        signal.signal(how[1], signal.SIG_DFL) if how[1] not in (signal.SIGKILL, signal.SIGSTOP) else None
        os.kill(os.getpid(), how[1])
        time.sleep(30)


def try_start_in_child(conn, proc):
    """a process object may be started only by the process that created it"""
    try:
        proc.start()
        conn.send('started')
    except AssertionError:
        conn.send('refused')
    except Exception as exc:      # noqa
        conn.send('error:%r' % (exc,))
