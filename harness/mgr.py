"""Binding A for Mgr.tla: the real billiard.managers.Server and real proxy objects
(BaseProxy / ListProxy created through a real SyncManager object) in one process: the
client class is replaced by one that hands each request straight to the real
Server.handle_request / Server.serve_client, so creation, incref/decref on proxy
construction and release, method dispatch, exposure checks and error replies all run the
repository's code, synchronously and deterministically."""
import gc
import os
import tempfile
import threading

import billiard.connection as bconn
import billiard.managers as bm
import billiard.util as butil

import logging
butil.get_logger().addHandler(logging.NullHandler())
butil.get_logger().propagate = False

CUR = [None]


class _OneShot:
    """server side of one request"""

    def __init__(self, request):
        self.request = [request]
        self.reply = None

    def recv(self):
        if not self.request:
            raise EOFError
        return self.request.pop()

    def send(self, msg):
        if self.reply is None:
            self.reply = msg

    def close(self):
        pass


class FakeClient:
    """stands in for billiard.connection.Client(address, authkey=...)"""

    def __init__(self, address, authkey=None, **kw):
        self.h = CUR[0]
        self.serving = False
        self._reply = None
        self.closed = False
        if self.h.expect_key is not None and bytes(authkey) != self.h.expect_key:
            raise bconn.AuthenticationError('digest sent was rejected')

    def send(self, req):
        srv = self.h.server
        ident, method, args, kwds = req
        if not self.serving:
            if method == 'accept_connection':
                self.serving = True
                self._reply = ('#RETURN', None)
                return
            c = _OneShot(req)
            srv.handle_request(c)
            self._reply = c.reply
        else:
            c = _OneShot(req)
            try:
                srv.serve_client(c)
            except SystemExit:
                pass
            self._reply = c.reply

    def recv(self):
        r, self._reply = self._reply, None
        return r

    def close(self):
        self.closed = True

    def fileno(self):
        return -1


class MgrAdapter:
    expect_key = None

    def reset(self, st):
        CUR[0] = self
        self._old = (bm.listener_client['pickle'], bconn.deliver_challenge, bconn.answer_challenge)
        bm.listener_client['pickle'] = (bconn.Listener, FakeClient)
        bconn.deliver_challenge = lambda c, k: None
        bconn.answer_challenge = lambda c, k: None
        self.dir = tempfile.mkdtemp(prefix='verif-mgr-', dir='/var/tmp')
        self.mgr = bm.SyncManager(address=os.path.join(self.dir, 's'), authkey=b'key')
        self.server = bm.Server(self.mgr._registry, self.mgr._address, b'key', 'pickle')
        self.server.stop_event = threading.Event()
        self.mgr._state.value = bm.State.STARTED
        self.mgr._Client = FakeClient
        self.ids = {}            # server ident -> abstract id
        self.prox = {}           # (client, id, serial) -> proxy object
        self.nprox = 0
        self.last = ['none', 0]
        # forget connections cached for this address by earlier replays
        bm.BaseProxy._address_to_local.pop(self.mgr._address, None)

    def close(self):
        self.prox.clear()
        gc.collect()
        try:
            self.server.listener.close()
        except Exception:
            pass
        bm.listener_client['pickle'], bconn.deliver_challenge, bconn.answer_challenge = self._old
        try:
            for f in os.listdir(self.dir):
                os.unlink(os.path.join(self.dir, f))
            os.rmdir(self.dir)
        except OSError:
            pass

    def _aid(self, ident):
        if ident not in self.ids:
            self.ids[ident] = len(self.ids) + 1
        return self.ids[ident]

    def step(self, act):
        n = act['name']
        if n == 'Create':
            p = self.mgr.list()
            o = self._aid(p._id)
            self.nprox += 1
            self.prox[(act['c'], o, self.nprox)] = p
            self.last = ['created', o]
            return dict(act, o=o)
        if n == 'Share':
            src = self.prox[tuple(act['p'])]
            # what unpickling in another process does
            func, args = src.__reduce__()
            q = func(*args[:3], dict(args[3], manager=None, authkey=b'key'))
            self.nprox += 1
            self.prox[(act['c'], act['p'][1], self.nprox)] = q
            return None
        if n == 'Drop':
            p = self.prox.pop(tuple(act['p']))
            p._close()                      # the finalizer a dying proxy runs
            del p
            return None
        if n == 'Call':
            p = self.prox[tuple(act['p'])]
            op = act['op']
            try:
                if op == 'append':
                    p.append('x')
                    self.last = ['return', 0]
                elif op == 'pop':
                    before = len(p)
                    p.pop()
                    self.last = ['return', before]
                elif op == 'len':
                    self.last = ['return', len(p)]
                elif op == 'getitem_bad':
                    p[10 ** 6]
                    self.last = ['return', -1]
                elif op == 'hidden':
                    p._callmethod('__class__')
                    self.last = ['return', -1]
            except IndexError:
                self.last = ['error', 0]
            except bm.RemoteError as exc:
                self.last = ['refused', 0] if 'not in exposed' in str(exc) else ['remote_error', 0]
            return None
        raise ValueError(n)

    def project(self):
        srv = self.server
        live = {self._aid(k): k for k in srv.id_to_obj if k != '0'}
        nobj = len(self.ids)
        ref = [srv.id_to_refcount.get(live[o], 0) if o in live else 0 for o in range(1, nobj + 1)]
        ln = [len(srv.id_to_obj[live[o]][0]) if o in live else -1 for o in range(1, nobj + 1)]
        return {'objs': sorted(live), 'ref': ref, 'len': ln, 'nobj': nobj,
                'prox': sorted([c, o, s] for (c, o, s) in self.prox), 'nprox': self.nprox,
                'last': list(self.last)}

    def normalize(self, st):
        st = dict(st)
        st['objs'] = sorted(st['objs'])
        st['prox'] = sorted(st['prox'])
        return st
