"""Binding A for Conn.tla: real billiard.connection.Connection objects whose raw write /
read (the defaults of Connection._send / _recv) are scripted: every kernel call is a yield
point at which the TLC behaviour decides how many bytes are accepted / returned, whether
the call is interrupted (EINTR) and where the peer closes."""
import array
import errno
import hashlib
import os

import billiard.connection as bconn
from billiard.connection import Connection
from billiard.exceptions import BufferTooShort
from lib.cothread import Co


def payload(m, n):
    """distinguishable, reproducible content for message m"""
    out = bytearray()
    seed = b'msg-%d' % m
    while len(out) < n:
        seed = hashlib.sha256(seed).digest()
        out += seed
    return bytes(out[:n])


class ConnAdapter:
    def __init__(self, consts=None):
        self.c = consts or {}

    def reset(self, st):
        self.msgs = list(st['msgs'])
        self.duplex = bool(self.c.get('Duplex', False))
        self.wire = bytearray()
        self.sent = 0
        self.rcvd = 0
        self.sclosed = False
        self.results = []
        self.slog = []
        self.neintr = 0
        self.nops = 0
        self.intact = True
        self.rcall = []
        self.rdead = False
        self.io_by_driver = False
        # real descriptors (never read or written; only ever closed)
        self.fds = list(os.pipe()) + list(os.pipe())
        self.cw = Connection(self.fds[1], readable=False)
        self.cr = Connection(self.fds[2], writable=self.duplex)
        self._old = (Connection._send.__defaults__, Connection._recv.__defaults__)
        Connection._send.__defaults__ = (self._write,)
        Connection._recv.__defaults__ = (self._read,)
        self.sender = Co(self._send_all, name='sender')
        self.receiver = Co(self._recv_loop, name='receiver')
        self.spend = self.sender.start()
        self.rpend = self.receiver.start()

    def close(self):
        for co in (self.sender, self.receiver):
            try:
                co.destroy()
            except Exception:
                pass
        Connection._send.__defaults__, Connection._recv.__defaults__ = self._old
        for c in (self.cw, self.cr):
            try:
                c.close()
            except Exception:
                pass
        for fd in self.fds:
            try:
                os.close(fd)
            except OSError:
                pass

    # ---- scripted kernel -----------------------------------------------------
    def _co(self):
        import threading
        cur = threading.current_thread()
        for co in (self.sender, self.receiver):
            if co.thread is cur:
                return co
        return None

    def _write(self, handle, buf):
        co = self._co()
        if co is None:
            self.io_by_driver = True
            raise AssertionError('write() attempted by a call that must fail before any I/O')
        cmd = co.yield_(('write', len(buf)))
        if cmd[0] == 'eintr':
            raise InterruptedError(errno.EINTR, 'Interrupted system call')
        n = cmd[1]
        if n > len(buf):
            raise RuntimeError('scripted to accept more than offered')
        self.wire += bytes(buf[:n])
        self.sent += n
        return n

    def _read(self, handle, n):
        co = self._co()
        if co is None:
            self.io_by_driver = True
            raise AssertionError('read() attempted by a call that must fail before any I/O')
        cmd = co.yield_(('read', n))
        if cmd[0] == 'eintr':
            raise InterruptedError(errno.EINTR, 'Interrupted system call')
        if cmd[0] == 'eof':
            return b''
        k = cmd[1]
        if k > n or k > len(self.wire):
            raise RuntimeError('scripted to return more than asked / available')
        chunk = bytes(self.wire[:k])
        del self.wire[:k]
        self.rcvd += k
        self.call_read += k
        return chunk

    # ---- the two parties ------------------------------------------------------
    def _send_all(self):
        for m, n in enumerate(self.msgs, 1):
            data = payload(m, n)
            try:
                if n and n % 4 == 0:
                    # a buffer of 4-byte items: offset and size still count bytes
                    self.cw.send_bytes(array.array('I', b'abcd' + data + b'wxyz'), 4, n)
                elif m % 2:
                    self.cw.send_bytes(data)
                else:                      # any bytes-like object with a valid offset and size
                    self.cw.send_bytes(memoryview(b'xy' + data + b'z'), 2, n)
            except ValueError:
                self.slog.append('valid_refused')      # valid arguments were rejected
        self.sender.yield_(('done', 0))

    def _recv_loop(self):
        while True:
            cmd = self.receiver.yield_(('idle', 0))
            kind, a, b = cmd[1], cmd[2], cmd[3]
            self.call_read = 0
            m = self._ri()
            want = payload(m, self.msgs[m - 1]) if m <= len(self.msgs) else None
            try:
                if kind == 'bytes':
                    got = self.cr.recv_bytes(None if a < 0 else a)
                    out = 'ok'
                    if got != want:
                        out, self.intact = 'corrupt', False
                else:
                    # the destination is a byte buffer, or (when sizes allow) one of wider items:
                    # offset and sizes are in bytes whatever the item size
                    wide = a > 0 and a % 4 == 0 and b % 4 == 0 and m % 2 == 1
                    buf = array.array('I', b'\xAA' * a) if wide else bytearray(b'\xAA' * a)
                    k = self.cr.recv_bytes_into(buf, b)
                    out = 'ok'
                    raw = bytes(buf)
                    if wide and want is not None and len(want) % 4:
                        # a message that is not a whole number of items cannot be stored exactly
                        # in an item-wise slice; only its whole items are checked
                        whole = len(want) - len(want) % 4
                        if k != len(want) or raw[b:b + whole] != want[:whole] or raw[:b] != b'\xAA' * b:
                            out, self.intact = 'corrupt', False
                    elif want is None or k != len(want) or raw[b:b + k] != want or \
                            raw[:b] != b'\xAA' * b or raw[b + k:] != b'\xAA' * (a - b - k):
                        out, self.intact = 'corrupt', False
            except EOFError:
                out = {0: 'eof', 4: 'eof_after_header'}.get(self.call_read, 'eof_odd')
            except BufferTooShort as exc:
                out = 'tooshort'
                if exc.args[0] != want or bytes(buf) != b'\xAA' * a:
                    out, self.intact = 'tooshort_bad', False
            except OSError as exc:
                s = str(exc)
                out = 'toolong' if 'bad message length' in s else \
                    'eof_in_message' if 'end of file during message' in s else 'oserror:' + s
            self.results.append([m, out])
            self.rcall = []
            if out in ('toolong', 'eof_after_header', 'eof_in_message'):
                self.rdead = True

    def _pos(self, count):
        """stream position -> (message index, offset in its encoding)"""
        m = 1
        for n in self.msgs:
            if count < 4 + n:
                return m, count
            count -= 4 + n
            m += 1
        return m, count

    def _ri(self):
        return self._pos(self.rcvd)[0]

    # ---- actions -------------------------------------------------------------
    def step(self, act):
        n = act['name']
        maxops = self.c.get('MaxOps', 0)
        if n == 'KWrite':
            if self.spend[0] != 'write':
                raise AssertionError('sender is not in write(): %r' % (self.spend,))
            self.spend = self.sender.resume(('accept', act['n']))
            if maxops:
                self.nops += 1
        elif n == 'KWriteEINTR':
            self.spend = self.sender.resume(('eintr',))
            self.neintr += 1
        elif n == 'PeerClose':
            self.sclosed = True
        elif n == 'SendInvalid':
            self._send_invalid(act['why'])
        elif n == 'RecvBytes':
            self.rcall = ['bytes', act['maxlength'], 0]
            self.rpend = self.receiver.resume(('call', 'bytes', act['maxlength'], 0))
        elif n == 'RecvInto':
            self.rcall = ['into', act['size'], act['offset']]
            self.rpend = self.receiver.resume(('call', 'into', act['size'], act['offset']))
        elif n == 'RecvInvalid':
            self._recv_invalid(act['why'])
        elif n == 'KRead':
            if self.rpend[0] != 'read':
                raise AssertionError('receiver is not in read(): %r' % (self.rpend,))
            self.rpend = self.receiver.resume(('data', act['n']))
            if maxops:
                self.nops += 1
        elif n == 'KReadEINTR':
            self.rpend = self.receiver.resume(('eintr',))
            self.neintr += 1
        elif n == 'KReadEOF':
            self.rpend = self.receiver.resume(('eof',))
        else:
            raise ValueError(n)
        for co in (self.sender, self.receiver):
            if co.crash is not None:
                raise co.crash

    def quiesce(self):
        """after a divergence: a receive call that is still inside read() is given what the wire
        holds (as much as it asks for), or end of file if the peer has closed, until it returns --
        so that the monitor sees the outcome of a call the specification had expected to be over"""
        for _ in range(64):
            if not self.rcall or self.rpend[0] != 'read' or self.receiver.finished:
                return
            k = min(self.rpend[1], len(self.wire))
            if k > 0:
                act = {'name': 'KRead', 'n': k}
                self.rpend = self.receiver.resume(('data', k))
            elif self.sclosed:
                act = {'name': 'KReadEOF'}
                self.rpend = self.receiver.resume(('eof',))
            else:
                return
            if self.receiver.crash is not None:
                raise self.receiver.crash
            yield act, self.project()

    def _send_invalid(self, why):
        self.io_by_driver = False
        data = b'0123456789'
        try:
            if why == 'negoffset':
                self.cw.send_bytes(data, -1)
            elif why == 'bigoffset':
                self.cw.send_bytes(data, 11)
            elif why == 'negsize':
                self.cw.send_bytes(data, 2, -1)
            elif why == 'bigsize':
                self.cw.send_bytes(data, 5, 6)
            elif why == 'closed':
                r, w = os.pipe()
                os.close(r)
                c = Connection(w)
                c.close()
                c.send_bytes(data)
            elif why == 'readonly':
                self.cr.send_bytes(data) if not self.duplex else self._raise_readonly()
            self.slog.append('accepted:' + why)
        except ValueError:
            self.slog.append(why if why in ('negoffset', 'bigoffset', 'negsize', 'bigsize')
                             else 'valueerror:' + why)
        except OSError:
            self.slog.append(why if why in ('closed', 'readonly') else 'oserror:' + why)
        if self.io_by_driver:
            self.slog[-1] = 'io:' + why

    def _raise_readonly(self):
        r, w = os.pipe()
        c = Connection(r, writable=False)
        try:
            c.send_bytes(b'x')
        finally:
            c.close()
            os.close(w)

    def _recv_invalid(self, why):
        self.io_by_driver = False
        try:
            if why == 'negmaxlength':
                self.cr.recv_bytes(-1)
            elif why == 'negoffset':
                self.cr.recv_bytes_into(bytearray(4), -1)
            elif why == 'bigoffset':
                self.cr.recv_bytes_into(bytearray(4), 5)
            elif why == 'notreadable':
                self.cr.recv_bytes()
            out = 'accepted:' + why
        except ValueError:
            out = why if why != 'notreadable' else 'valueerror'
        except OSError:
            out = why if why == 'notreadable' else 'oserror'
        if self.io_by_driver:
            out = 'io:' + why
        self.results.append([0, out])

    # ---- projection -------------------------------------------------------------
    def project(self):
        si, soff = self._pos(self.sent)
        ri, roff = self._pos(self.rcvd)
        readable = bool(self.cr.readable) and not self.cr.closed
        return {'msgs': self.msgs, 'si': si, 'soff': soff, 'sclosed': self.sclosed,
                'ri': ri, 'roff': roff, 'rcall': list(self.rcall),
                'results': [list(r) for r in self.results], 'readable': readable,
                'rdead': self.rdead, 'slog': list(self.slog), 'neintr': self.neintr,
                'nops': self.nops, 'intact': self.intact,
                'asked': self.rpend[1] if (self.rpend and self.rpend[0] == 'read') else 0}
