"""Binding B for Proc.tla: real child processes under every start method, leaving by every
exit path; the parent's observations are recorded with what the driver *knows* about the
child (it releases the child itself and waits for its death through the kernel, not through
billiard) and judged by ProcMonitor.tla."""
import os
import signal
import threading
import time

import billiard

from . import targets

JOIN_T = 0.15
SLACK = 1.5 * float(os.environ.get('VERIF_TIME_SCALE', '1'))


def _wait_really_dead(p, method, timeout=20, sentinel=None):
    """barrier that does not go through the code under test where possible"""
    t0 = time.time()
    if method in ('fork', 'spawn'):
        while time.time() - t0 < timeout:
            try:
                r = os.waitid(os.P_PID, p.pid, os.WEXITED | os.WNOWAIT | os.WNOHANG)
            except ChildProcessError:
                return True
            if r is not None:
                return True
            time.sleep(0.005)
        return False
    # forkserver: the child is not ours; its death is announced on the sentinel pipe (watched
    # through a duplicate of the descriptor taken at start, with the kernel's own select)
    import select
    r, _, _ = select.select([sentinel], [], [], timeout)
    return bool(r)


def scenario(method, how, schedule):
    """returns the observed sequence [{act, state}]"""
    ctx = billiard.get_context(method)
    r, w = ctx.Pipe(duplex=False)
    p = ctx.Process(target=targets.child, args=(r, list(how)))
    st = {'method': method, 'how': list(how), 'phase': 'new'}
    obs = [{'act': {'e': 'init'}, 'state': dict(st)}]

    def rec(act):
        obs.append({'act': act, 'state': dict(st)})

    def observe(kind):
        try:
            _observe(kind)
        except AssertionError:
            raise
        except Exception as exc:      # noqa
            # the observation call itself raised: that is what the parent sees
            rec({'e': 'api_error', 'call': kind, 'what': type(exc).__name__})

    def _observe(kind):
        if kind == 'exitcode':
            v = p.exitcode
            rec({'e': 'exitcode', 'ret': [] if v is None else [v]})
        elif kind == 'is_alive':
            rec({'e': 'is_alive', 'ret': bool(p.is_alive())})
        elif kind == 'join_timed':
            t0 = time.monotonic()
            done = []
            th = threading.Thread(target=lambda: (p.join(JOIN_T), done.append(time.monotonic())), daemon=True)
            th.start()
            th.join(JOIN_T + SLACK + 3.0)
            if not done:
                # join(timeout) is still blocked long after its timeout: record that, then let the
                # child go so that the call (and this scenario) can end
                rec({'e': 'join_timed', 'intime': False, 'joined': False,
                     'elapsed_ms': int((time.monotonic() - t0) * 1000)})
                st['stuck_join'] = True
                try:
                    w.send_bytes(b'go')
                except Exception:
                    pass
                th.join(15)
                return
            el = done[0] - t0
            joined = p._popen.returncode is not None
            rec({'e': 'join_timed', 'intime': el <= JOIN_T + SLACK, 'joined': joined,
                 'elapsed_ms': int(el * 1000)})
        elif kind == 'join':
            t0 = time.monotonic()
            p.join(10)
            rec({'e': 'join', 'joined': p._popen.returncode is not None,
                 'elapsed_ms': int((time.monotonic() - t0) * 1000)})
        elif kind == 'active':
            rec({'e': 'active', 'ret': p in billiard.active_children()})
        elif kind == 'start_again':
            try:
                p.start()
                rec({'e': 'start_again', 'ret': 'started'})
            except AssertionError:
                rec({'e': 'start_again', 'ret': 'refused'})

    try:
        p.start()
    except Exception as exc:      # noqa
        # e.g. the bookkeeping of earlier children fails while this one is started
        rec({'e': 'api_error', 'call': 'start', 'what': type(exc).__name__})
        return obs
    r.close()
    sentinel = os.dup(p.sentinel)
    st['phase'] = 'running'
    rec({'e': 'start'})
    try:
        racer = None
        for k in schedule[0]:
            if k == 'race':
                # two observers of the same process object at the moment it ends: a thread blocked in
                # join(), and this thread polling exitcode -- whichever reaps the child, both must
                # end up with its true status
                racer = threading.Thread(target=p.join, daemon=True)      # no timeout: blocked in waitpid itself
                racer.start()
                time.sleep(0.1)
                continue
            observe(k)
            if st.get('stuck_join'):
                return obs
        w.send_bytes(b'go')
        if racer is not None:
            t0 = time.monotonic()
            while time.monotonic() - t0 < 10:
                try:
                    if p.exitcode is not None:
                        break
                except Exception:      # noqa  (what the parent sees is recorded below)
                    break
            racer.join(16)
        if not _wait_really_dead(p, method, sentinel=sentinel):
            rec({'e': 'harness_timeout'})
            return obs
        st['phase'] = 'ended'
        rec({'e': 'child_ended'})
        for k in schedule[1]:
            observe(k)
    finally:
        try:
            os.close(sentinel)
        except OSError:
            pass
        try:
            w.close()
        except Exception:
            pass
        if p._popen is not None and p._popen.returncode is None:
            try:
                os.kill(p.pid, signal.SIGKILL)
            except Exception:
                pass
            try:
                p.join(2)
            except Exception:
                pass
    return obs


def nested(outer, inner, how, si):
    """the same scenario, observed by a parent that was itself started with `outer`"""
    ctx = billiard.get_context(outer)
    r, w = ctx.Pipe(duplex=False)
    p = ctx.Process(target=targets.nested_scenario, args=(w, inner, list(how), si))
    p.start()
    w.close()
    obs = None
    if r.poll(60 * float(os.environ.get('VERIF_TIME_SCALE', '1'))):
        try:
            obs = r.recv()
        except EOFError:
            obs = None
    p.join(10)
    if p.is_alive():
        p.terminate()
    if obs is None:
        st = {'method': inner, 'how': list(how), 'phase': 'new'}
        obs = [{'act': {'e': 'init'}, 'state': st}, {'act': {'e': 'harness_timeout'}, 'state': st}]
    return obs


def start_in_child():
    """fork only: the child tries to start a process object created by the parent"""
    ctx = billiard.get_context('fork')
    r, w = ctx.Pipe(duplex=False)
    victim = ctx.Process(target=targets.child, args=(None, ['return']))
    p = ctx.Process(target=targets.try_start_in_child, args=(w, victim))
    p.start()
    ret = 'timeout'
    if r.poll(10):
        ret = r.recv()
    p.join(5)
    st = {'method': 'fork', 'how': ['return'], 'phase': 'new'}
    return [{'act': {'e': 'init'}, 'state': st},
            {'act': {'e': 'start_in_child', 'ret': ret}, 'state': st}]


SCHEDULES = [
    (['exitcode', 'is_alive', 'join_timed', 'active', 'start_again', 'exitcode'],
     ['exitcode', 'is_alive', 'join', 'active', 'exitcode']),
    (['is_alive', 'join_timed'], ['join', 'exitcode', 'active', 'is_alive', 'start_again']),
    ([], ['is_alive', 'exitcode', 'active', 'join_timed']),
    (['active'], ['active', 'join', 'exitcode']),
    (['is_alive', 'race'], ['exitcode', 'is_alive', 'join', 'active', 'exitcode']),
]
