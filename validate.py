#!/usr/bin/env python3-vt
"""Validate MANIFEST.json and evidence files against the given schemas (run with python3-vt)."""
import glob
import json
import sys

import jsonschema

ok = True
m = json.load(open('/verif/MANIFEST.json'))
jsonschema.validate(m, json.load(open('/root/.vp/MANIFEST.schema.json')))
props = [json.loads(l)['id'] for l in open('/verif/properties.jsonl')]
claimed = [c['property_id'] for c in m['checks']]
na = [c['property_id'] for c in m.get('not_applicable', [])]
for p in props:
    if (p in claimed) == (p in na):
        print('property', p, 'must be either claimed or not_applicable')
        ok = False
es = json.load(open('/root/.vp/EVIDENCE.schema.json'))
for f in sorted(glob.glob('/verif/evidence/C*.json')):
    try:
        jsonschema.validate(json.load(open(f)), es)
    except Exception as exc:
        print('INVALID', f, str(exc)[:300])
        ok = False
print('valid' if ok else 'PROBLEMS')
sys.exit(0 if ok else 1)
