#!/venv/bin/python
"""MANIFEST.setup_cmd: verify the tools are present and every spec parses (SANY)."""
import os
import subprocess
import sys

VERIF = os.path.dirname(os.path.abspath(__file__))
sys.path.insert(0, VERIF)
from lib import tlc  # noqa


def main():
    ok = True
    for tool in ('java',):
        if subprocess.call(['which', tool], stdout=subprocess.DEVNULL) != 0:
            print('missing tool', tool)
            ok = False
    if not os.path.exists(tlc.JAR):
        print('missing', tlc.JAR)
        ok = False
    for f in sorted(os.listdir(tlc.SPECS)):
        if f.endswith('.tla'):
            good, out = tlc.sany(f[:-4])
            print('SANY %-24s %s' % (f, 'ok' if good else 'FAILED'))
            if not good:
                print(out[-2000:])
                ok = False
    os.makedirs(os.path.join(VERIF, 'evidence', 'replays'), exist_ok=True)
    return 0 if ok else 1


if __name__ == '__main__':
    sys.exit(main())
