------------------------------- MODULE Close -------------------------------
(* The close() / join() protocol of billiard.pool.Pool (C07) at message level:            *)
(* jobs already handed to the task pipe, the shutdown sentinels (one per worker that       *)
(* exists when the task handler is told to finish), workers that take a job or a sentinel, *)
(* the per-child task quota, the result handler that keeps consuming until every job is    *)
(* resolved, and supervision -- which on the pinned tree stops at close().                 *)
EXTENDS Integers, Sequences, FiniteSets, TLC

CONSTANTS Procs, NJobs,
          Quota,          \* maxtasksperchild, 0 = none
          MaxW,           \* worker ids available (replacements)
          Supervise       \* BOOLEAN: exited workers are still replaced (and given a sentinel) after close()

VARIABLES st,             \* "run" | "closed" | "told" | "joined"
          inq,            \* task pipe: job ids, 0 = sentinel
          running,        \* worker -> job (0 idle)
          nd,             \* worker -> jobs completed
          alive,          \* workers not yet exited
          nextw,
          outq,           \* results not yet consumed
          done,           \* jobs resolved with their own result
          nsub
vars == <<st, inq, running, nd, alive, nextw, outq, done, nsub>>
W == 1..MaxW

Init == /\ st = "run" /\ inq = <<>> /\ running = [w \in W |-> 0] /\ nd = [w \in W |-> 0]
        /\ alive = 1..Procs /\ nextw = Procs + 1 /\ outq = {} /\ done = {} /\ nsub = 0

Submit == /\ st = "run" /\ nsub < NJobs
          /\ nsub' = nsub + 1 /\ inq' = Append(inq, nsub + 1)
          /\ UNCHANGED <<st, running, nd, alive, nextw, outq, done>>
CloseIt == /\ st = "run" /\ st' = "closed"
           /\ UNCHANGED <<inq, running, nd, alive, nextw, outq, done, nsub>>
TellOthers ==   \* task handler: one sentinel per worker in the pool right now
    /\ st = "closed" /\ st' = "told"
    /\ inq' = inq \o [i \in 1..Cardinality(alive) |-> 0]
    /\ UNCHANGED <<running, nd, alive, nextw, outq, done, nsub>>
Take(w) ==
    /\ w \in alive /\ running[w] = 0 /\ inq # <<>>
    /\ (Quota = 0 \/ nd[w] < Quota)
    /\ inq' = Tail(inq)
    /\ IF Head(inq) = 0 THEN alive' = alive \ {w} /\ UNCHANGED running
                        ELSE running' = [running EXCEPT ![w] = Head(inq)] /\ UNCHANGED alive
    /\ UNCHANGED <<st, nd, nextw, outq, done, nsub>>
Finish(w) ==
    /\ w \in alive /\ running[w] # 0
    /\ outq' = outq \cup {running[w]} /\ running' = [running EXCEPT ![w] = 0]
    /\ nd' = [nd EXCEPT ![w] = nd[w] + 1]
    /\ alive' = IF Quota # 0 /\ nd[w] + 1 >= Quota THEN alive \ {w} ELSE alive    \* recycle
    /\ UNCHANGED <<st, inq, nextw, done, nsub>>
Consume(j) ==
    /\ j \in outq /\ outq' = outq \ {j} /\ done' = done \cup {j}
    /\ UNCHANGED <<st, inq, running, nd, alive, nextw, nsub>>
Replace ==      \* supervision brings the pool back to size (only while running, unless Supervise)
    /\ (st = "run" \/ Supervise) /\ Cardinality(alive) < Procs /\ nextw <= MaxW
    /\ st # "joined"
    /\ alive' = alive \cup {nextw} /\ nextw' = nextw + 1
    /\ inq' = IF st = "told" THEN Append(inq, 0) ELSE inq      \* a late worker needs its own sentinel
    /\ UNCHANGED <<st, running, nd, outq, done, nsub>>
Join ==         \* join() returns: result handler saw every job resolved, all workers gone
    /\ st = "told" /\ alive = {} /\ outq = {} /\ done = 1..nsub
    /\ st' = "joined"
    /\ UNCHANGED <<inq, running, nd, alive, nextw, outq, done, nsub>>
GiveUp ==       \* ... or the result handler's 5 s give-up after all workers are gone
    /\ st = "told" /\ alive = {} /\ outq = {} /\ done # 1..nsub
    /\ ~(Supervise /\ nextw <= MaxW)        \* nobody will ever take the remaining jobs
    /\ st' = "joined"
    /\ UNCHANGED <<inq, running, nd, alive, nextw, outq, done, nsub>>

Next == Submit \/ CloseIt \/ TellOthers \/ (\E w \in W : Take(w) \/ Finish(w)) \/ (\E j \in 1..NJobs : Consume(j))
        \/ Replace \/ Join \/ GiveUp
Spec == Init /\ [][Next]_vars /\ WF_vars(Next)

(* every job submitted before close() is resolved with its own result when join() returns *)
DrainsAll == st = "joined" => done = 1..nsub
(* after join(): no worker process left *)
NothingLeftBehind == st = "joined" => alive = {}
(* join() always returns *)
JoinReturns == <>(st = "joined")
(* no job is taken after a worker took its sentinel; nobody takes two sentinels *)
TypeOK == /\ \A w \in W : running[w] \in 0..NJobs
=============================================================================
