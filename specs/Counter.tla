------------------------------ MODULE Counter ------------------------------
(* A shared Value updated by read-modify-write sequences made while holding its lock   *)
(* (C15, last clause): each locked sequence is one atomic step.                         *)
EXTENDS Integers, Sequences, TLC, Json
CONSTANTS MaxVal
VARIABLES val, act
cvars == <<val, act>>
CInit == val = 0 /\ act = [name |-> "Init"]
Incr == /\ val < MaxVal /\ val' = val + 1 /\ act' = [name |-> "Incr", read |-> val, written |-> val + 1]
CNext == Incr
NoLostUpdate == [][act'.name = "Incr" => (act'.read = val /\ act'.written = val + 1 /\ val' = act'.written)]_cvars
=============================================================================
