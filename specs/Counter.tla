------------------------------ MODULE Counter ------------------------------
(* A shared Value updated by read-modify-write sequences made while holding its lock   *)
(* (C15, last clause): each locked sequence is one atomic step.                         *)
EXTENDS Integers, Sequences, TLC, Json
CONSTANTS MaxVal
VARIABLES val, act
cvars == <<val, act>>
CInit == val = 0 /\ act = [name |-> "Init"]
Incr == /\ val < MaxVal /\ val' = val + 1
        /\ act' = [name |-> "Incr", read |-> val, written |-> val + 1, inhold |-> FALSE]
CNext == Incr
NoLostUpdate == [][act'.name = "Incr" => (act'.read = val /\ act'.written = val + 1 /\ val' = act'.written)]_cvars
(* the lock excludes: no locked section of one process lies inside the interval in which another
   process (here: the parent, across the start of its children) held the same lock *)
ExclusiveHold == [][act'.name = "Incr" => ~act'.inhold]_cvars
=============================================================================
