------------------------------ MODULE PoolObs ------------------------------
(* Observations of real pools with real worker processes (binding B for C01, C04, C05,   *)
(* C06, C09, C10): one record per scenario, each run in its own interpreter.             *)
(* Times are tenths of a second.  `host` is "ok", "hung" (no answer within the driver's   *)
(* bound) or "died:<status>" (the process owning the pool was taken down).               *)
EXTENDS Integers, Sequences, TLC, Json, IOUtils
CONSTANTS Slack10,        \* scheduling allowance for real-time bounds (tenths of a second)
          TolImapLoss,    \* known finding F4: an ordered imap is never told about a lost worker
          TolSendFailSlot, \* known finding F1b: the slot of a job that could not be sent is not returned
          TolLateReadySlot, \* known finding F15: the slot of a job whose result arrives after the job left the table
                            \* (here: discarded while running) is never given back
          TolDiscardCredit \* known finding F7: the result of a discarded job is credited to nobody, its worker
                           \* waits out the 30 s consumption guard before it exits to be recycled
VARIABLES tid
Obs == JsonDeserialize(IOEnv.OBS_FILE)
o == Obs[tid]
sc == o.scenario
MonInit == tid \in 1..Len(Obs)
MonNext == UNCHANGED tid
Is(k) == o.kind = k /\ o.host = "ok"

ExpectedDeath == o.kind = "budget" /\ sc.variant = "exceed"
HostSurvives == o.host = "ok" \/ ExpectedDeath
(* C04: the dying worker's job, and only it, fails with WorkerLostError naming the status,  *)
(* between its lost-worker timeout and that timeout plus one supervision period             *)
LossReported == (Is("loss") /\ o.victim_found) =>
    \/ /\ o.outcome = "exc" /\ o.exc = "WorkerLostError" /\ o.names_status
       /\ o.delay10 >= o.grace10 /\ o.delay10 <= o.grace10 + 8 + Slack10
    \/ (TolImapLoss /\ sc.job = "imap")
LossSparesOthers == (Is("loss") /\ o.victim_found) =>
    (o.others_ok /\ o.pool_size = sc.procs /\ o.usable_after)
(* C04 / C09: a worker that had no part of a job dies: the job is untouched, the pool recovers *)
IdleLossHarmless == (Is("idleloss") /\ o.victim_found) =>
    (o.outcome = "ok" /\ o.by_survivor /\ o.pool_size = 2)
(* C05 *)
HardLimit == Is("hard") =>
    /\ o.outcome = "exc" /\ o.exc = "TimeLimitExceeded"
    /\ o.delay10 >= o.limit10 /\ o.delay10 <= o.limit10 + 10 + Slack10
    /\ o.victim_gone10 >= 0 /\ o.victim_gone10 <= 10 + Slack10
    /\ o.callback_ok /\ o.next_ok
MapNeverTimedOut == Is("hard_map") => (o.results_ok /\ o.next_ok)
(* C06 *)
SoftOnceInTask == Is("soft") =>
    (o.outcome = "ok" /\ o.raised_in_task = 1 /\ o.callback_ok /\ o.ncallbacks = 1 /\ o.bystander_ok)
(* C01 / C10 *)
SendFailResolves == Is("sendfail") => (o.bad_outcome = "exc" /\ o.error_callbacks = 1 /\ o.good_ok)
SendFailSlot == Is("sendfail") => (o.slots_free = o.slots \/ TolSendFailSlot)
(* C10: the slot of a job that was timed out comes back when its worker has been replaced *)
HardSlotBack == Is("hard") => o.slots_free = o.slots
DiscardSlotBack == (Is("discard") /\ sc.putlocks) => (o.slots_free = o.slots \/ TolLateReadySlot)
(* C09 *)
RecycleHarmless == Is("recycle") =>
    (o.outcome = "ok" /\ o.items /\ o.max_per_worker <= o.quota /\ o.max_per_worker >= 1 /\ o.secs10 < 50 + Slack10)
(* C11 on a real pool with its supervisor thread: max_restarts replacements are admitted, the next
   abnormal exit raises RestartFreqExceeded (which takes the host down with SIGTERM) instead of
   forking; an accepted job starts the count afresh *)
BudgetAckResets == (Is("budget") /\ sc.variant = "ack") =>
    (o.done /\ o.init_deaths = 2 * (sc.maxr - 1) /\ o.job_ok)
BudgetStops == ExpectedDeath => (o.host = "died:-15" /\ o.init_deaths = sc.maxr)
(* C08: a worker that gets the termination signal runs its (slow) exit callback to the end, goes,
   and is replaced *)
SignalledRunsCallback == Is("signal_one") =>
    (o.callback_began /\ o.callback_ended /\ o.gone10 >= 0 /\ o.pool_size = 2 /\ o.next_ok
     /\ o.job_outcome \in {"Terminated", "SystemExit"})     \* pool-made, or the signal's own exception
                                                               \* sent back by the worker before it left
(* C08: terminate() in the middle of a replacement round returns, and nothing is forked afterwards *)
TerminateStopsRefill == Is("term_repop") =>
    (o.returned /\ o.secs10 <= 100 + Slack10 /\ o.alive = 0 /\ o.forked_after = 0)
DiscardNoHoldUp == Is("discard") => (o.outcome = "ok" /\ (o.secs10 < 50 + Slack10 \/ TolDiscardCredit))
=============================================================================
