------------------------------ MODULE MapAsm ------------------------------
(* C02: chunking arithmetic of Pool._map_async / imap / imap_unordered and the     *)
(* reassembly done by MapResult, IMapIterator, IMapUnorderedIterator, for every     *)
(* input length, chunk size, pool size, completion order and failing position.      *)
(* Items are abstract tokens 1..n; "ok i" stands for f(x_i), "err i" for the        *)
(* exception f raises on x_i.  A chunk (part) fails with the error of its first     *)
(* failing item (mapstar stops there).                                              *)
EXTENDS Integers, Sequences, FiniteSets, TLC, Json

CONSTANTS MaxN,        \* input lengths 0..MaxN
          Sizes,       \* pool sizes that determine the default chunk size
          MaxFails,    \* at most this many failing positions
          Kinds,       \* subset of {"map", "imap", "imapu"}
          MaxDup,      \* duplicate result messages the environment may inject
          TolChunkedImapStops  \* known finding F16: imap with chunksize > 1 returns a plain
                               \* generator, which is finished after the first error it raises

VARIABLES n, c, kind, fails,      \* chosen in Init: length, effective chunk size, API, failing positions
          cgiven, psize,          \* the chunksize argument (0 = default) and pool size used
          sent,                   \* parts handed to the task pipe, in order
          lenset,                 \* set_length() done (imap kinds)
          acked, done,            \* parts acknowledged / whose result the parent has processed
          incache,
          mval, merr, mleft, mready, msucc, mcb, mecb, \* MapResult
          idx, items, unsorted, ilen, iready,          \* IMapIterator
          chunkbuf, gdead,                             \* the flattening generator (chunksize > 1)
          yielded, stopped, last,                      \* what the consumer has seen
          ndup, act

vars == <<n, c, kind, fails, cgiven, psize, sent, lenset, acked, done, incache,
          mval, merr, mleft, mready, msucc, mcb, mecb, idx, items, unsorted, ilen, iready,
          chunkbuf, gdead, yielded, stopped, last, ndup, act>>
View == <<n, c, kind, fails, cgiven, psize, sent, lenset, acked, done, incache,
          mval, merr, mleft, mready, msucc, mcb, mecb, idx, items, unsorted, ilen, iready,
          chunkbuf, gdead, yielded, stopped, last, ndup>>

Min(S) == CHOOSE x \in S : \A y \in S : x <= y
CeilDiv(a, b) == (a + b - 1) \div b
NParts == IF c = 0 THEN 0 ELSE CeilDiv(n, c)
ItemsOf(p) == {i \in 1..n : (p - 1) * c < i /\ i <= p * c}
PartRes(p) == LET bad == ItemsOf(p) \cap fails
              IN IF bad = {} THEN <<"ok", p>> ELSE <<"err", Min(bad)>>
DefaultChunk(len, ps) == IF len = 0 THEN 0
                         ELSE LET q == len \div (ps * 4) IN IF len % (ps * 4) # 0 THEN q + 1 ELSE q

Init ==
    /\ kind \in Kinds /\ n \in 0..MaxN /\ psize \in Sizes
    /\ cgiven \in IF kind = "map" THEN 0..(MaxN + 1) ELSE 1..(MaxN + 1)
    /\ c = IF kind = "map"
             THEN (IF n = 0 THEN 0 ELSE IF cgiven = 0 THEN DefaultChunk(n, psize) ELSE cgiven)
             ELSE cgiven
    /\ fails \in {F \in SUBSET (1..n) : Cardinality(F) <= MaxFails}
    /\ sent = 0 /\ lenset = FALSE /\ acked = {} /\ done = {}
    /\ incache = ~(kind = "map" /\ c = 0)
    /\ mval = [i \in 1..n |-> 0] /\ merr = 0 /\ mleft = NParts /\ mready = (kind = "map" /\ c = 0)
    /\ msucc = TRUE /\ mcb = 0 /\ mecb = 0
    /\ idx = 0 /\ items = <<>> /\ unsorted = {} /\ ilen = <<>> /\ iready = FALSE
    /\ chunkbuf = <<>> /\ gdead = FALSE
    /\ yielded = <<>> /\ stopped = FALSE /\ last = "none" /\ ndup = 0
    /\ act = [name |-> "Init"]

(* ---- task handler ------------------------------------------------------------ *)
Send ==
    /\ sent < NParts
    /\ sent' = sent + 1
    /\ act' = [name |-> "Send", p |-> sent + 1]
    /\ UNCHANGED <<n, c, kind, fails, cgiven, psize, lenset, acked, done, incache, mval, merr, mleft,
                   mready, msucc, mcb, mecb, idx, items, unsorted, ilen, iready, chunkbuf, gdead,
                   yielded, stopped, last, ndup>>

SetLength ==     \* imap kinds: after the last task was written
    /\ kind # "map" /\ sent = NParts /\ ~lenset
    /\ lenset' = TRUE /\ ilen' = <<NParts>>
    /\ IF idx = NParts THEN iready' = TRUE /\ incache' = FALSE ELSE UNCHANGED <<iready, incache>>
    /\ act' = [name |-> "SetLength"]
    /\ UNCHANGED <<n, c, kind, fails, cgiven, psize, sent, acked, done, mval, merr, mleft, mready, msucc,
                   mcb, mecb, idx, items, unsorted, chunkbuf, gdead, yielded, stopped, last, ndup>>

(* ---- result handler ------------------------------------------------------------ *)
Ack(p) ==
    /\ p \in 1..sent /\ p \notin acked
    /\ acked' = acked \cup {p}
    /\ act' = [name |-> "Ack", p |-> p]
    /\ UNCHANGED <<n, c, kind, fails, cgiven, psize, sent, lenset, done, incache, mval, merr, mleft,
                   mready, msucc, mcb, mecb, idx, items, unsorted, ilen, iready, chunkbuf, gdead,
                   yielded, stopped, last, ndup>>

RECURSIVE Drain(_, _, _)
Drain(ix, its, uns) ==      \* IMapIterator._set: move consecutive buffered results to items
    IF \E r \in uns : r[1] = ix
      THEN LET r == CHOOSE r \in uns : r[1] = ix
           IN Drain(ix + 1, Append(its, r[2]), uns \ {r})
      ELSE <<ix, its, uns>>

SetMap(p) ==
    LET r == PartRes(p) IN
    IF r[1] = "ok"
      THEN /\ mval' = [i \in 1..n |-> IF i \in ItemsOf(p) THEN i ELSE mval[i]]
           /\ mleft' = mleft - 1
           /\ IF mleft - 1 = 0
                THEN mcb' = mcb + 1 /\ incache' = FALSE /\ mready' = TRUE
                ELSE UNCHANGED <<mcb, incache, mready>>
           /\ UNCHANGED <<msucc, mecb, merr>>
      ELSE /\ msucc' = FALSE /\ merr' = r[2] /\ mecb' = mecb + 1 /\ incache' = FALSE
           /\ mready' = TRUE /\ UNCHANGED <<mleft, mcb, mval>>

SetImap(p) ==      \* ordered
    LET r == PartRes(p)
        i0 == p - 1
    IN /\ IF idx = i0
            THEN LET d == Drain(idx + 1, Append(items, r), unsorted)
                 IN idx' = d[1] /\ items' = d[2] /\ unsorted' = d[3]
            ELSE unsorted' = unsorted \cup {<<i0, r>>} /\ UNCHANGED <<idx, items>>
       /\ IF ilen # <<>> /\ idx' = ilen[1]
            THEN iready' = TRUE /\ incache' = FALSE ELSE UNCHANGED <<iready, incache>>

SetImapu(p) ==
    /\ items' = Append(items, PartRes(p)) /\ idx' = idx + 1
    /\ IF ilen # <<>> /\ idx + 1 = ilen[1]
         THEN iready' = TRUE /\ incache' = FALSE ELSE UNCHANGED <<iready, incache>>
    /\ UNCHANGED unsorted

Complete(p, dup) ==   \* the parent processes the result message of part p (dup: a duplicate)
    /\ IF dup THEN p \in done /\ ~incache /\ ndup < MaxDup /\ ndup' = ndup + 1   \* late duplicate for a resolved job
              ELSE p \in acked /\ p \notin done /\ ndup' = ndup
    /\ done' = done \cup {p}
    /\ IF incache
         THEN CASE kind = "map"   -> SetMap(p) /\ UNCHANGED <<idx, items, unsorted, iready>>
                [] kind = "imap"  -> SetImap(p) /\ UNCHANGED <<mval, merr, mleft, mready, msucc, mcb, mecb>>
                [] kind = "imapu" -> SetImapu(p) /\ UNCHANGED <<mval, merr, mleft, mready, msucc, mcb, mecb>>
         ELSE UNCHANGED <<incache, mval, merr, mleft, mready, msucc, mcb, mecb, idx, items, unsorted, iready>>
    /\ act' = [name |-> "Complete", p |-> p, dup |-> dup]
    /\ UNCHANGED <<n, c, kind, fails, cgiven, psize, sent, lenset, acked, ilen, chunkbuf, gdead,
                   yielded, stopped, last>>

(* ---- consumer -------------------------------------------------------------------- *)
(* one next(timeout=0) on what imap()/imap_unordered() returned *)
Expand(p) == LET lo == (p - 1) * c + 1
                 hi == IF p * c < n THEN p * c ELSE n
             IN [k \in 1..(hi - lo + 1) |-> <<"ok", lo + k - 1>>]

NextItem ==
    /\ kind # "map" /\ ~stopped
    /\ IF c = 1
         THEN \* the iterator object itself
              IF items # <<>>
                THEN /\ items' = Tail(items)
                     /\ yielded' = Append(yielded, Head(items))
                     /\ last' = IF Head(items)[1] = "ok" THEN "item" ELSE "error"
                     /\ UNCHANGED <<stopped, chunkbuf, gdead>>
                ELSE /\ IF ilen # <<>> /\ idx = ilen[1]
                          THEN stopped' = TRUE /\ last' = "stop"
                          ELSE stopped' = FALSE /\ last' = "timeout"
                     /\ UNCHANGED <<items, yielded, chunkbuf, gdead>>
         ELSE \* generator (item for chunk in result for item in chunk)
              IF gdead THEN /\ stopped' = TRUE /\ last' = "stop"
                            /\ UNCHANGED <<items, yielded, chunkbuf, gdead>>
              ELSE IF chunkbuf # <<>>
                THEN /\ chunkbuf' = Tail(chunkbuf) /\ yielded' = Append(yielded, Head(chunkbuf))
                     /\ last' = "item" /\ UNCHANGED <<items, stopped, gdead>>
              ELSE IF items # <<>>
                THEN IF Head(items)[1] = "ok"
                       THEN LET e == Expand(Head(items)[2])
                            IN /\ items' = Tail(items)
                               /\ yielded' = Append(yielded, e[1]) /\ chunkbuf' = Tail(e)
                               /\ last' = "item" /\ UNCHANGED <<stopped, gdead>>
                       ELSE /\ items' = Tail(items)
                            /\ yielded' = Append(yielded, Head(items))
                            /\ gdead' = TRUE /\ last' = "error"
                            /\ UNCHANGED <<stopped, chunkbuf>>
              ELSE \* nothing buffered: the generator blocks in result.next() without a timeout;
                   \* only the exhausted case returns
                   /\ ilen # <<>> /\ idx = ilen[1]
                   /\ stopped' = TRUE /\ last' = "stop" /\ gdead' = TRUE
                   /\ UNCHANGED <<items, yielded, chunkbuf>>
    /\ act' = [name |-> "NextItem", got |-> last']
    /\ UNCHANGED <<n, c, kind, fails, cgiven, psize, sent, lenset, acked, done, incache, mval, merr, mleft,
                   mready, msucc, mcb, mecb, idx, unsorted, ilen, iready, ndup>>

Next == Send \/ SetLength \/ (\E p \in 1..(MaxN + 1) : Ack(p) \/ Complete(p, FALSE) \/ Complete(p, TRUE))
        \/ NextItem

Spec == Init /\ [][Next]_vars

(* ========================================================================= *)
AllParts == 1..NParts
Seqn == [i \in 1..n |-> i]
(* map / starmap: exactly the sequential list, or the error of one of its own inputs *)
MapCorrect == (kind = "map" /\ mready) =>
                 IF msucc THEN mval = Seqn /\ (\A p \in AllParts : PartRes(p)[1] = "ok")
                          ELSE merr \in fails
MapReadyWhen == kind = "map" =>
                 (mready <=> (c = 0 \/ (\A p \in AllParts : p \in done /\ PartRes(p)[1] = "ok")
                                    \/ (\E p \in done : PartRes(p)[1] = "err")))
MapStable == [][(kind = "map" /\ mready) => (mready' /\ mval' = mval /\ merr' = merr /\ msucc' = msucc
                                             /\ mcb' = mcb /\ mecb' = mecb)]_vars
MapCallbacksOnce == mcb + mecb <= 1 /\ (mcb = 1 => msucc /\ mready) /\ (mecb = 1 => ~msucc /\ mready)
EmptyIsEmpty == (kind = "map" /\ n = 0) => (mready /\ msucc /\ mval = <<>>)
(* chunk arithmetic: the parts tile the input exactly, in order *)
Tiling == /\ (n > 0 => c >= 1) /\ (\A i \in 1..n : \E p \in AllParts : i \in ItemsOf(p))
          /\ \A p, q \in AllParts : p # q => ItemsOf(p) \cap ItemsOf(q) = {}
          /\ \A p \in AllParts : ItemsOf(p) # {}
(* imap: what the consumer has seen is a prefix of the sequential outcome *)
ExpectedItem(i) == IF i \in fails THEN <<"err", i>> ELSE <<"ok", i>>
RECURSIVE ExpectedFrom(_)
ExpectedFrom(p) ==      \* chunk-granular expectation from part p on
    IF p > NParts THEN <<>>
    ELSE (IF PartRes(p)[1] = "ok" THEN Expand(p) ELSE <<PartRes(p)>>) \o ExpectedFrom(p + 1)
IsPrefix(s, t) == Len(s) <= Len(t) /\ \A i \in 1..Len(s) : s[i] = t[i]
ImapPrefix == kind = "imap" => IsPrefix(yielded, ExpectedFrom(1))
ImapItemExact == (kind = "imap" /\ c = 1) => \A i \in 1..Len(yielded) : yielded[i] = ExpectedItem(i)
ImapuNoDupNoAlien == kind = "imapu" =>
      /\ \A i, j \in 1..Len(yielded) : i # j => yielded[i] # yielded[j]
      /\ \A i \in 1..Len(yielded) : \E k \in 1..Len(ExpectedFrom(1)) : ExpectedFrom(1)[k] = yielded[i]
(* exhaustion is reported exactly when everything was delivered *)
StopsComplete == (kind # "map" /\ stopped) =>
      \/ Len(yielded) = Len(ExpectedFrom(1))
      \/ (TolChunkedImapStops /\ c > 1 /\ \E i \in 1..Len(yielded) : yielded[i][1] = "err")
NoEarlyStop == (kind # "map" /\ stopped /\ ~gdead) => (lenset /\ done = AllParts)
ContinuesAfterError == [][(kind # "map" /\ last = "error" /\ act'.name = "NextItem" /\ items # <<>>)
                             => (last' \in {"item", "error"} \/ (TolChunkedImapStops /\ c > 1))]_vars

(* completeness: once every part's result has been processed nothing is held back *)
ImapComplete == (kind # "map" /\ done = AllParts /\ sent = NParts) =>
                    (unsorted = {} /\ idx = NParts /\ (lenset => (iready /\ ~incache)))
MapComplete == (kind = "map" /\ done = AllParts /\ sent = NParts) => (mready /\ ~incache)

Proj == [n |-> n, c |-> c, kind |-> kind, fails |-> fails, cgiven |-> cgiven, psize |-> psize,
         sent |-> sent, lenset |-> lenset, acked |-> acked, done |-> done, incache |-> incache,
         mval |-> mval, merr |-> merr, mleft |-> mleft, mready |-> mready, msucc |-> msucc, mcb |-> mcb,
         mecb |-> mecb, idx |-> idx, items |-> items, unsorted |-> unsorted, ilen |-> ilen,
         iready |-> iready, chunkbuf |-> chunkbuf, gdead |-> gdead, yielded |-> yielded,
         stopped |-> stopped, last |-> last, ndup |-> ndup]
EmitEdge == PrintT(ToJson([from |-> Proj, act |-> act', to |-> Proj', lvl |-> TLCGet("level")]))
EmitInit == TLCGet("level") > 1 \/ PrintT(ToJson([init |-> Proj]))
=============================================================================
