--------------------------- MODULE EInfoMonitor ---------------------------
EXTENDS EInfo, IOUtils
VARIABLES tid, l
Obs == JsonDeserialize(IOEnv.OBS_FILE)
MonInit == /\ tid \in 1..Len(Obs) /\ l = 1
           /\ LET o == Obs[tid][1].state IN
              /\ phase = o.phase /\ d = o.d /\ kind = o.kind /\ frames = o.frames /\ trunc = o.trunc
              /\ npickle = o.npickle /\ formatted = o.formatted /\ same = o.same
              /\ act = Obs[tid][1].act
MonNext == /\ l < Len(Obs[tid]) /\ l' = l + 1 /\ tid' = tid
           /\ LET o == Obs[tid][l + 1].state IN
              /\ phase' = o.phase /\ d' = o.d /\ kind' = o.kind /\ frames' = o.frames
              /\ trunc' = o.trunc /\ npickle' = o.npickle /\ formatted' = o.formatted
              /\ same' = o.same /\ act' = Obs[tid][l + 1].act
=============================================================================
