---------------------------- MODULE IterMonitor ----------------------------
EXTENDS Iter, IOUtils
VARIABLES tid, l
Obs == JsonDeserialize(IOEnv.OBS_FILE)
ToSet(s) == {s[i] : i \in 1..Len(s)}
MonInit == /\ tid \in 1..Len(Obs) /\ l = 1
           /\ LET o == Obs[tid][1].state IN
              /\ items = o.items /\ index = o.index /\ lenset = o.lenset /\ unsorted = ToSet(o.unsorted)
              /\ done = ToSet(o.done) /\ cpc = o.cpc /\ timed = o.timed /\ ncalls = o.ncalls
              /\ cres = o.cres /\ act = Obs[tid][1].act
MonNext == /\ l < Len(Obs[tid]) /\ l' = l + 1 /\ tid' = tid
           /\ LET o == Obs[tid][l + 1].state IN
              /\ items' = o.items /\ index' = o.index /\ lenset' = o.lenset /\ unsorted' = ToSet(o.unsorted)
              /\ done' = ToSet(o.done) /\ cpc' = o.cpc /\ timed' = o.timed /\ ncalls' = o.ncalls
              /\ cres' = o.cres /\ act' = Obs[tid][l + 1].act
=============================================================================
