------------------------------- MODULE Conn -------------------------------
(* billiard.connection.Connection over a byte stream (C13): _send / _recv loops,    *)
(* _send_bytes (header + payload concatenated up to 16384 bytes, separate above),    *)
(* _recv_bytes(maxsize), recv_bytes, recv_bytes_into, send_bytes argument checks --  *)
(* against a kernel that may accept / return any part of what is asked (short        *)
(* writes / reads), interrupt calls (EINTR), and a peer that may close at any byte.  *)
(*                                                                                    *)
(* The stream is the concatenation of the encodings (4-byte length + payload) of the  *)
(* messages; positions are tracked as counters, contents by the harness (real bytes). *)
EXTENDS Integers, Sequences, FiniteSets, TLC, Json

CONSTANTS MsgSeqs,     \* set of sequences of payload lengths to send; Init picks one
          Thresh,      \* payloads longer than this are sent as two writes (16384)
          FragAll,     \* kernel fragments: every n up to this bound is explored ...
          FragExtra,   \* ... plus these particular sizes, plus "everything" and "all but one"
          MaxLens,     \* maxlength arguments explored for recv_bytes (-1 = None)
          Bufs,        \* <<bufsize, offset>> pairs explored for recv_bytes_into
          Duplex,      \* BOOLEAN: the receiving end is also writable
          MaxEintr,    \* interrupted system calls per behaviour
          MaxOps       \* kernel read/write calls per behaviour (bounds the sampled-fragment configs)

VARIABLES msgs,
          si, soff, sclosed,         \* sender: message index, bytes of its encoding written, write end closed
          ri, roff,                  \* receiver: message index, bytes of its encoding consumed
          rcall,                     \* receive call in progress: <<>> or <<kind, a, b>>
          results,                   \* outcome of every finished receive call, in order: <<m, outcome>>
          readable, rdead,           \* receiver's readable flag; stream position lost after an error
          slog,                      \* outcomes of refused send calls (argument errors)
          neintr, nops, act

vars == <<msgs, si, soff, sclosed, ri, roff, rcall, results, readable, rdead, slog, neintr, nops, act>>
View == <<msgs, si, soff, sclosed, ri, roff, rcall, results, readable, rdead, slog, neintr, nops>>

Enc(m) == 4 + msgs[m]
RECURSIVE SumEnc(_)
SumEnc(k) == IF k = 0 THEN 0 ELSE Enc(k) + SumEnc(k - 1)
Sent == SumEnc(si - 1) + soff
Rcvd == SumEnc(ri - 1) + roff
Avail == Sent - Rcvd
Min(a, b) == IF a < b THEN a ELSE b

Frags(r) == ((1..Min(r, FragAll)) \cup {r, r - 1} \cup FragExtra) \cap (1..r)

Init == /\ msgs \in MsgSeqs /\ si = 1 /\ soff = 0 /\ sclosed = FALSE /\ ri = 1 /\ roff = 0
        /\ rcall = <<>> /\ results = <<>> /\ readable = TRUE /\ rdead = FALSE /\ slog = <<>>
        /\ neintr = 0 /\ nops = 0 /\ act = [name |-> "Init"]

(* ---- sender ---------------------------------------------------------------- *)
Sending == si <= Len(msgs) /\ ~sclosed
(* length of the buffer the current write() call is given *)
SRemaining == IF msgs[si] > Thresh
                THEN (IF soff < 4 THEN 4 - soff ELSE Enc(si) - soff)
                ELSE Enc(si) - soff

KWrite ==       \* the kernel accepts k bytes of what write() was given
    /\ Sending /\ (MaxOps = 0 \/ nops < MaxOps) /\ nops' = (IF MaxOps = 0 THEN 0 ELSE nops + 1)
    /\ \E k \in Frags(SRemaining) :
         /\ IF soff + k = Enc(si) THEN si' = si + 1 /\ soff' = 0 ELSE si' = si /\ soff' = soff + k
         /\ act' = [name |-> "KWrite", n |-> k]
    /\ UNCHANGED <<msgs, sclosed, ri, roff, rcall, results, readable, rdead, slog, neintr>>

KWriteEINTR ==
    /\ Sending /\ neintr < MaxEintr
    /\ neintr' = neintr + 1 /\ act' = [name |-> "KWriteEINTR"]
    /\ UNCHANGED <<msgs, si, soff, sclosed, ri, roff, rcall, results, readable, rdead, slog, nops>>

PeerClose ==    \* the writing end goes away, at any byte position
    /\ ~sclosed
    /\ sclosed' = TRUE /\ act' = [name |-> "PeerClose"]
    /\ UNCHANGED <<msgs, si, soff, ri, roff, rcall, results, readable, rdead, slog, neintr, nops>>

SendInvalid(why) ==   \* send_bytes with a bad offset / size, or on a closed / read-only handle
    /\ why \in {"negoffset", "bigoffset", "negsize", "bigsize", "closed", "readonly"}
    /\ Len(slog) < 1 /\ soff = 0
    /\ slog' = Append(slog, why) /\ act' = [name |-> "SendInvalid", why |-> why]
    /\ UNCHANGED <<msgs, si, soff, sclosed, ri, roff, rcall, results, readable, rdead, neintr, nops>>

(* ---- receiver ---------------------------------------------------------------- *)
CanCall == rcall = <<>> /\ ~rdead /\ Len(results) < Len(msgs) + 2

RecvBytes(ml) ==     \* recv_bytes(maxlength); ml = -1 stands for None
    /\ CanCall /\ readable /\ ml \in MaxLens
    /\ rcall' = <<"bytes", ml, 0>> /\ act' = [name |-> "RecvBytes", maxlength |-> ml]
    /\ UNCHANGED <<msgs, si, soff, sclosed, ri, roff, results, readable, rdead, slog, neintr, nops>>

RecvInto(b) ==       \* recv_bytes_into(buffer of b[1] bytes, offset b[2])
    /\ CanCall /\ readable /\ b \in Bufs /\ 0 <= b[2] /\ b[2] <= b[1]
    /\ rcall' = <<"into", b[1], b[2]>> /\ act' = [name |-> "RecvInto", size |-> b[1], offset |-> b[2]]
    /\ UNCHANGED <<msgs, si, soff, sclosed, ri, roff, results, readable, rdead, slog, neintr, nops>>

RecvInvalid(why) ==  \* argument errors and unusable handles are rejected before any I/O
    /\ rcall = <<>> /\ Len(results) < Len(msgs) + 2
    /\ ~\E i \in 1..Len(results) : results[i][1] = 0        \* explored once per behaviour
    /\ \/ why \in {"negmaxlength", "negoffset", "bigoffset"} /\ readable /\ ~rdead
       \/ why = "notreadable" /\ ~readable
    /\ results' = Append(results, <<0, why>>)
    /\ act' = [name |-> "RecvInvalid", why |-> why]
    /\ UNCHANGED <<msgs, si, soff, sclosed, ri, roff, rcall, readable, rdead, slog, neintr, nops>>

RNeed == IF roff < 4 THEN 4 - roff ELSE Enc(ri) - roff
Finish(out) == /\ results' = Append(results, <<ri, out>>) /\ rcall' = <<>>

KRead ==        \* the kernel returns k of the bytes read() asked for
    /\ rcall # <<>> /\ ri <= Len(msgs) /\ (MaxOps = 0 \/ nops < MaxOps) /\ nops' = (IF MaxOps = 0 THEN 0 ELSE nops + 1)
    /\ \E k \in Frags(Min(Avail, RNeed)) :
     /\ act' = [name |-> "KRead", n |-> k]
     /\ LET o == roff + k
           len == msgs[ri]
       IN IF o < 4 \/ (o > 4 /\ o < Enc(ri))
            THEN /\ roff' = o /\ UNCHANGED <<ri, rcall, results, readable, rdead>>
          ELSE IF o = 4 /\ rcall[1] = "bytes" /\ rcall[2] >= 0 /\ len > rcall[2]
            THEN \* header says more than maxlength: bad message length
                 /\ roff' = o /\ ri' = ri /\ Finish("toolong")
                 /\ readable' = FALSE /\ rdead' = TRUE
          ELSE IF o = 4 /\ len > 0
            THEN /\ roff' = o /\ UNCHANGED <<ri, rcall, results, readable, rdead>>
          ELSE \* the whole message has been read
               /\ ri' = ri + 1 /\ roff' = 0
               /\ Finish(IF rcall[1] = "into" /\ rcall[2] < rcall[3] + len THEN "tooshort" ELSE "ok")
               /\ UNCHANGED <<readable, rdead>>
    /\ UNCHANGED <<msgs, si, soff, sclosed, slog, neintr>>

KReadEINTR ==
    /\ rcall # <<>> /\ neintr < MaxEintr
    /\ neintr' = neintr + 1 /\ act' = [name |-> "KReadEINTR"]
    /\ UNCHANGED <<msgs, si, soff, sclosed, ri, roff, rcall, results, readable, rdead, slog, nops>>

KReadEOF ==     \* nothing in flight and the writing end is closed: read() returns b''
    /\ rcall # <<>> /\ Avail = 0 /\ sclosed
    /\ Finish(IF roff = 0 THEN "eof"                 \* clean end of stream
              ELSE IF roff = 4 THEN "eof_after_header"  \* reported like the clean case
              ELSE "eof_in_message")
    /\ rdead' = (roff # 0)
    /\ act' = [name |-> "KReadEOF"]
    /\ UNCHANGED <<msgs, si, soff, sclosed, ri, roff, readable, slog, neintr, nops>>

Next == \/ KWrite \/ KRead
        \/ KWriteEINTR \/ PeerClose \/ KReadEINTR \/ KReadEOF
        \/ \E ml \in MaxLens : RecvBytes(ml)
        \/ \E b \in Bufs : RecvInto(b)
        \/ \E w \in {"negoffset", "bigoffset", "negsize", "bigsize", "closed", "readonly"} : SendInvalid(w)
        \/ \E w \in {"negmaxlength", "negoffset", "bigoffset", "notreadable"} : RecvInvalid(w)

Spec == Init /\ [][Next]_vars

(* ========================================================================= *)
Oks == SelectSeq(results, LAMBDA r : r[2] \in {"ok", "tooshort"})
(* every message delivered is the next one of the stream, whole: in order, boundaries kept *)
InOrder == \A i \in 1..Len(Oks) : Oks[i][1] = i
(* nothing is delivered for a message the stream ended in *)
NeverShort == [][\A i \in 1..Len(results') :
                    (i > Len(results) /\ results'[i][2] \in {"ok", "tooshort"}) =>
                        (act'.name = "KRead" /\ roff + act'.n = Enc(ri))]_vars
EOFExact == [][\A i \in 1..Len(results') : i > Len(results) =>
      /\ (results'[i][2] = "eof" <=> (act'.name = "KReadEOF" /\ roff = 0))
      /\ (results'[i][2] = "eof_in_message" => (act'.name = "KReadEOF" /\ roff # 0))]_vars
(* an oversized message is refused and the connection stops being readable *)
OversizeStops == (\E i \in 1..Len(results) : results[i][2] = "toolong") => ~readable
NoReadAfterStop == [][(~readable) => (act'.name \notin {"KRead", "KReadEOF", "RecvBytes", "RecvInto"})]_vars
OversizeOnlyIfTooBig == [][\A i \in 1..Len(results') : (i > Len(results) /\ results'[i][2] = "toolong")
                              => (rcall[2] >= 0 /\ msgs[ri] > rcall[2])]_vars
WithinLimit == [][\A i \in 1..Len(results') : (i > Len(results) /\ results'[i][2] = "ok" /\ rcall[1] = "bytes"
                                                /\ rcall[2] >= 0) => msgs[ri] <= rcall[2]]_vars
(* recv_bytes_into: a message is stored only if it fits the room behind the offset; otherwise the
   call fails with BufferTooShort (the buffer untouched, the message in the exception) *)
IntoExact == [][\A i \in 1..Len(results') :
                  (i > Len(results) /\ rcall # <<>> /\ rcall[1] = "into" /\ results'[i][2] \in {"ok", "tooshort"})
                     => (results'[i][2] = "tooshort" <=> rcall[2] < rcall[3] + msgs[ri])]_vars
(* argument errors and unusable handles are rejected before any I/O *)
ArgErrorsBeforeIO == [][act'.name \in {"SendInvalid", "RecvInvalid"} =>
                           (si' = si /\ soff' = soff /\ ri' = ri /\ roff' = roff)]_vars
BytesConserved == Avail >= 0

(* the size the receiver's pending read() asks the kernel for: never more than what remains of the
   header / message it is reading (anything more could be bytes of the next message) *)
Asked == IF rcall = <<>> \/ rdead THEN 0 ELSE RNeed
Proj == [msgs |-> msgs, si |-> si, soff |-> soff, sclosed |-> sclosed, ri |-> ri, roff |-> roff,
         rcall |-> rcall, results |-> results, readable |-> readable, rdead |-> rdead,
         slog |-> slog, neintr |-> neintr, nops |-> nops, intact |-> TRUE, asked |-> Asked]
EmitEdge == PrintT(ToJson([from |-> Proj, act |-> act', to |-> Proj', lvl |-> TLCGet("level")]))
EmitInit == TLCGet("level") > 1 \/ PrintT(ToJson([init |-> Proj]))
=============================================================================
