------------------------------- MODULE Sem -------------------------------
(* billiard.pool.LaxBoundedSemaphore -- the pool's slot semaphore (C10).      *)
(* One action per call (each call body runs under the semaphore's condition   *)
(* lock), except                                                              *)
(*   - shrink(): `_initial_value -= 1` then a *blocking* acquire(): a call    *)
(*     that finds value = 0 stays pending (pend) until a release/grow wakes   *)
(*     it;                                                                    *)
(*   - clear(): a loop `while value < bound: Semaphore.release()` whose test  *)
(*     is made outside the lock.  FineClear = TRUE models it as two steps     *)
(*     (ClearCheck, ClearInc) so that TLC interleaves other threads between   *)
(*     them; FineClear = FALSE is the single-threaded view used for replay.   *)
EXTENDS Integers, Sequences, TLC, Json

CONSTANTS InitBound,      \* initial size
          MaxBound,       \* grow() is explored up to this size
          MaxPend,        \* max. number of shrink() calls blocked at once
          FineClear,      \* BOOLEAN, see above
          ClearLocked,    \* BOOLEAN: clear() runs under the condition lock (the repaired code)
          FineRelease     \* BOOLEAN: a second thread's release() may be parked at the lock boundary

VARIABLES value,          \* Semaphore._value
          bound,          \* _initial_value
          pend,           \* shrink() calls blocked in acquire()
          clr,            \* "idle" | "inc": a clear() that has seen value < bound
          rel,            \* "idle" | "parked": another thread's release() waits for the lock
          act             \* history: label of the last action (hidden by VIEW)

vars == <<value, bound, pend, clr, rel, act>>
View == <<value, bound, pend, clr, rel>>

Init == /\ value = InitBound /\ bound = InitBound /\ pend = 0 /\ clr = "idle" /\ rel = "idle"
        /\ act = [name |-> "Init"]

(* ---- pure next-value operators, shared with Pool.tla -------------------- *)
RelVal(v, b)  == IF v < b THEN v + 1 ELSE v          \* LaxBoundedSemaphore.release
AcqOk(v)      == v > 0

(* a token becoming available is taken at once by a blocked shrink() *)
Give(v, p) == IF p > 0 THEN <<v, p - 1>> ELSE <<v + 1, p>>

Acquire ==   \* acquire(False)
    /\ IF value > 0
         THEN value' = value - 1 /\ act' = [name |-> "Acquire", ret |-> TRUE]
         ELSE value' = value /\ act' = [name |-> "Acquire", ret |-> FALSE]
    /\ UNCHANGED <<bound, pend, clr, rel>>

Release ==
    /\ IF value < bound
         THEN /\ value' = Give(value, pend)[1] /\ pend' = Give(value, pend)[2]
         ELSE UNCHANGED <<value, pend>>
    /\ act' = [name |-> "Release"]
    /\ UNCHANGED <<bound, clr, rel>>

Grow ==
    /\ bound < MaxBound
    /\ bound' = bound + 1
    /\ value' = Give(value, pend)[1] /\ pend' = Give(value, pend)[2]
    /\ act' = [name |-> "Grow"]
    /\ UNCHANGED <<clr, rel>>

Shrink ==
    /\ bound > 0
    /\ bound' = bound - 1
    /\ IF value > 0 THEN value' = value - 1 /\ pend' = pend
                    ELSE pend < MaxPend /\ value' = value /\ pend' = pend + 1
    /\ act' = [name |-> "Shrink"]
    /\ UNCHANGED <<clr, rel>>

(* clear() as one atomic step (the loop runs under the lock, or no other thread is  *)
(* inside): raises value to bound; each notify wakes one blocked shrink(), which    *)
(* takes its token as soon as the lock is free.                                     *)
ClearAll(v, b, p) == IF v < b
                       THEN LET w == IF p < b - v THEN p ELSE b - v IN <<b - w, p - w>>
                       ELSE <<v, p>>

Clear ==      \* whole call, no other thread inside
    /\ ~FineClear /\ (ClearLocked \/ pend = 0)
    /\ value' = ClearAll(value, bound, pend)[1] /\ pend' = ClearAll(value, bound, pend)[2]
    /\ act' = [name |-> "Clear"]
    /\ UNCHANGED <<bound, clr, rel>>

ClearCheck == \* unlocked: the loop test made outside the lock; locked: the call begins
    /\ FineClear /\ clr = "idle" /\ (ClearLocked \/ value < bound)
    /\ clr' = "inc"
    /\ act' = [name |-> "ClearCheck"]
    /\ UNCHANGED <<value, bound, pend, rel>>

ClearInc ==   \* unlocked: threading.Semaphore.release(), an unconditional increment;
              \* locked: the whole loop
    /\ FineClear /\ clr = "inc"
    /\ IF ClearLocked
         THEN value' = ClearAll(value, bound, pend)[1] /\ pend' = ClearAll(value, bound, pend)[2]
         ELSE value' = Give(value, pend)[1] /\ pend' = Give(value, pend)[2]
    /\ clr' = "idle"
    /\ act' = [name |-> "ClearInc"]
    /\ UNCHANGED <<bound, rel>>

(* release() called by a second thread (result handler and supervisor both release slots): it
   arrives at the lock, and makes its test and its increment once it has it *)
ReleaseArrive ==
    /\ FineRelease /\ rel = "idle" /\ rel' = "parked"
    /\ act' = [name |-> "ReleaseArrive"]
    /\ UNCHANGED <<value, bound, pend, clr>>
ReleaseDo ==
    /\ FineRelease /\ rel = "parked" /\ rel' = "idle"
    /\ IF value < bound
         THEN /\ value' = Give(value, pend)[1] /\ pend' = Give(value, pend)[2]
         ELSE UNCHANGED <<value, pend>>
    /\ act' = [name |-> "ReleaseDo"]
    /\ UNCHANGED <<bound, clr>>

Next == Acquire \/ Release \/ Grow \/ Shrink \/ Clear \/ ClearCheck \/ ClearInc \/ ReleaseArrive \/ ReleaseDo

Spec == Init /\ [][Next]_vars

(* ---- properties (C10, semaphore level) ----------------------------------- *)
TypeOK   == value \in Int /\ bound \in Int /\ pend \in Nat
Bounded  == 0 <= value /\ value <= bound          \* never exceeds its configured size
PendOnlyWhenEmpty == pend > 0 => value = 0
(* operation contracts, as action properties *)
AcquireTakesOne == [][act'.name = "Acquire" =>
                        /\ act'.ret = (value > 0)
                        /\ value' = IF value > 0 THEN value - 1 ELSE value]_vars
ReleaseGivesOne == [][act'.name = "Release" =>
                        value' + (pend - pend') = RelVal(value, bound)]_vars
ClearRestores   == [][act'.name = "Clear" => value' + (pend - pend') = (IF value < bound THEN bound ELSE value)]_vars
ResizeByOne     == [][/\ act'.name = "Grow"   => bound' = bound + 1 /\ value' + (pend - pend') = value + 1
                      /\ act'.name = "Shrink" => bound' = bound - 1 /\ value' - (pend' - pend) = value - 1
                      /\ act'.name \notin {"Grow", "Shrink"} => bound' = bound]_vars

(* ---- binding ---------------------------------------------------------------- *)
Proj == [value |-> value, bound |-> bound, pend |-> pend, clr |-> clr, rel |-> rel]
EmitEdge == PrintT(ToJson([from |-> Proj, act |-> act', to |-> Proj', lvl |-> TLCGet("level")]))
EmitInit == TLCGet("level") > 1 \/ PrintT(ToJson([init |-> Proj]))
=============================================================================
