------------------------------- MODULE Proc -------------------------------
(* billiard.process.BaseProcess (C19): life cycle of one child and what the parent is  *)
(* told about it: exitcode, is_alive(), join(timeout), active_children(), start guards. *)
(* The child's exit path and the start method are chosen in Init; the parent's calls    *)
(* may come at any time.  Real children are observed and every observation is checked   *)
(* against Expected* below (ProcMonitor.tla).                                           *)
EXTENDS Integers, Sequences, TLC, Json

CONSTANTS Methods,     \* subset of {"fork", "spawn", "forkserver"}
          Hows,        \* exit paths: <<"return">>, <<"raise">>, <<"exit", n>>, <<"signal", s>>
          MaxCalls

VARIABLES method, how,
          phase,       \* "new" | "running" | "ended": what really is the case
          reaped,      \* the parent has collected the exit status
          listed,      \* the process object is among active_children()
          ncalls,
          last,        \* last observation: <<call, result>>
          act
vars == <<method, how, phase, reaped, listed, ncalls, last, act>>
View == <<method, how, phase, reaped, listed, ncalls, last>>

Init == /\ method \in Methods /\ how \in Hows /\ phase = "new" /\ reaped = FALSE /\ listed = FALSE
        /\ ncalls = 0 /\ last = <<"none", 0>> /\ act = [e |-> "init"]

(* the exit status a finished child reports *)
Decode(h, m) ==
    CASE h[1] = "return" -> 0
      [] h[1] = "raise"  -> 1
      [] h[1] = "exit"   -> h[2]
      [] h[1] = "signal" -> IF m = "forkserver" THEN 255 ELSE 0 - h[2]

ExpectedExitcode == IF phase = "ended" THEN <<Decode(how, method)>> ELSE <<>>   \* <<>> = None
ExpectedAlive == phase = "running"

Start ==
    /\ phase = "new" /\ phase' = "running" /\ listed' = TRUE
    /\ last' = <<"start", 0>> /\ act' = [e |-> "start"]
    /\ UNCHANGED <<method, how, reaped, ncalls>>
StartAgain ==     \* a process object can be started only once
    /\ phase # "new" /\ ncalls < MaxCalls /\ ncalls' = ncalls + 1
    /\ last' = <<"start_again", "refused">> /\ act' = [e |-> "start_again", ret |-> "refused"]
    /\ UNCHANGED <<method, how, phase, reaped, listed>>
ChildEnds ==
    /\ phase = "running" /\ phase' = "ended"
    /\ last' = <<"child_ended", 0>> /\ act' = [e |-> "child_ended"]
    /\ UNCHANGED <<method, how, reaped, listed, ncalls>>
Exitcode ==
    /\ phase # "new" /\ ncalls < MaxCalls /\ ncalls' = ncalls + 1
    /\ last' = <<"exitcode", ExpectedExitcode>>
    /\ reaped' = (reaped \/ phase = "ended")
    /\ act' = [e |-> "exitcode", ret |-> ExpectedExitcode]
    /\ UNCHANGED <<method, how, phase, listed>>
IsAlive ==
    /\ phase # "new" /\ ncalls < MaxCalls /\ ncalls' = ncalls + 1
    /\ last' = <<"is_alive", ExpectedAlive>>
    /\ reaped' = (reaped \/ phase = "ended")
    /\ act' = [e |-> "is_alive", ret |-> ExpectedAlive]
    /\ UNCHANGED <<method, how, phase, listed>>
JoinTimed ==      \* join(small timeout): returns within the timeout whether or not the child ended
    /\ phase # "new" /\ ncalls < MaxCalls /\ ncalls' = ncalls + 1
    /\ last' = <<"join_timed", phase = "ended">>
    /\ reaped' = (reaped \/ phase = "ended")
    /\ listed' = (IF phase = "ended" THEN FALSE ELSE listed)
    /\ act' = [e |-> "join_timed", intime |-> TRUE, joined |-> (phase = "ended")]
    /\ UNCHANGED <<method, how, phase>>
Join ==           \* join(): returns once the child has ended
    /\ phase = "ended" /\ ncalls < MaxCalls /\ ncalls' = ncalls + 1
    /\ last' = <<"join", TRUE>> /\ reaped' = TRUE /\ listed' = FALSE
    /\ act' = [e |-> "join", joined |-> TRUE]
    /\ UNCHANGED <<method, how, phase>>
Active ==         \* is it among active_children()?  (that call itself reaps finished children)
    /\ phase # "new" /\ ncalls < MaxCalls /\ ncalls' = ncalls + 1
    /\ listed' = (IF phase = "ended" THEN FALSE ELSE listed)
    /\ reaped' = (reaped \/ phase = "ended")
    /\ last' = <<"active", listed'>>
    /\ act' = [e |-> "active", ret |-> listed']
    /\ UNCHANGED <<method, how, phase>>

Next == Start \/ StartAgain \/ ChildEnds \/ Exitcode \/ IsAlive \/ JoinTimed \/ Join \/ Active
Spec == Init /\ [][Next]_vars

(* design-level sanity *)
AliveUntilEnded == (phase = "running") => (ExpectedAlive /\ ExpectedExitcode = <<>>)
AfterJoinNotListed == [][act'.e = "join" => (~listed' /\ reaped')]_vars
CodeRange == \A h \in Hows : \A m \in Methods : Decode(h, m) \in -64..255
=============================================================================
