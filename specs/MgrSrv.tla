------------------------------- MODULE MgrSrv -------------------------------
(* The manager server's reference counting for ONE referent that several clients are handed   *)
(* (a registered callable that returns the same object every time), at the granularity of the *)
(* server mutex: every request handler (Server.create / incref / decref) runs on its own       *)
(* thread and is seen reaching the mutex (`atlock`), having left its critical section           *)
(* (`released`), and returning.  What a handler does after it has released the mutex must not   *)
(* touch the tables: another handler may have run in between.                                   *)
(* C20: a shared object stays alive in the server while at least one proxy to it exists and    *)
(* is disposed of once the last one is released.                                               *)
EXTENDS Integers, Sequences, FiniteSets, TLC, Json
CONSTANTS Progs        \* sequence of programs, one per handler thread: sequences of "create" | "incref" | "decref"
Threads == 1..Len(Progs)
VARIABLES pc,        \* t -> "idle" | "atlock" | "released"
          ip,        \* t -> requests of its program completed
          held,      \* t -> references this client holds (ghost: what the protocol entitles it to)
          refcount,  \* id_to_refcount entry, 0 = no entry
          present,   \* the referent has an id_to_obj entry
          act
vars == <<pc, ip, held, refcount, present, act>>
View == <<pc, ip, held, refcount, present>>
Init == /\ pc = [t \in Threads |-> "idle"] /\ ip = [t \in Threads |-> 0] /\ held = [t \in Threads |-> 0]
        /\ refcount = 0 /\ present = FALSE /\ act = [name |-> "Init"]
Op(t) == Progs[t][ip[t] + 1]
(* the request arrives: its handler reaches the mutex *)
Arrive(t) ==
    /\ pc[t] = "idle" /\ ip[t] < Len(Progs[t])
    /\ Op(t) \in {"incref", "decref"} => held[t] > 0          \* clients only talk about references they hold
    /\ pc' = [pc EXCEPT ![t] = "atlock"]
    /\ act' = [name |-> "Arrive", t |-> t, op |-> Op(t)]
    /\ UNCHANGED <<ip, held, refcount, present>>
(* the critical section, whole: the mutex is free (nobody parks inside one) *)
Section(t) ==
    /\ pc[t] = "atlock"
    /\ \/ /\ Op(t) = "create" /\ present' = TRUE /\ refcount' = refcount + 1
          /\ held' = [held EXCEPT ![t] = held[t] + 1]
       \/ /\ Op(t) = "incref" /\ refcount' = refcount + 1 /\ UNCHANGED present
          /\ held' = [held EXCEPT ![t] = held[t] + 1]
       \/ /\ Op(t) = "decref" /\ refcount' = refcount - 1 /\ present' = (refcount - 1 > 0)
          /\ held' = [held EXCEPT ![t] = held[t] - 1]
    /\ pc' = [pc EXCEPT ![t] = "released"]
    /\ act' = [name |-> "Section", t |-> t, op |-> Op(t)]
    /\ UNCHANGED ip
(* the handler returns: nothing it does after the mutex may change the tables *)
Return(t) ==
    /\ pc[t] = "released"
    /\ pc' = [pc EXCEPT ![t] = "idle"] /\ ip' = [ip EXCEPT ![t] = ip[t] + 1]
    /\ act' = [name |-> "Return", t |-> t]
    /\ UNCHANGED <<held, refcount, present>>
Next == \E t \in Threads : Arrive(t) \/ Section(t) \/ Return(t)
Spec == Init /\ [][Next]_vars
RECURSIVE Sum(_, _)
Sum(f, S) == IF S = {} THEN 0 ELSE LET x == CHOOSE y \in S : TRUE IN f[x] + Sum(f, S \ {x})
RefExact == refcount = Sum(held, Threads)
AliveWhileReferenced == refcount > 0 => present
(* ... once the handlers have returned (an implementation may dispose of the referent after it has
   left the mutex, as CPython's does) *)
DisposedWhenUnreferenced == (refcount = 0 /\ \A t \in Threads : pc[t] = "idle") => ~present
(* billiard's handlers do nothing after the mutex; not judged (a design note, see above) *)
AfterMutexNothing == [][act'.name = "Return" => (refcount' = refcount /\ present' = present)]_vars
Proj == [pc |-> pc, ip |-> ip, held |-> held, refcount |-> refcount, present |-> present]
EmitEdge == PrintT(ToJson([from |-> Proj, act |-> act', to |-> Proj', lvl |-> TLCGet("level")]))
EmitInit == TLCGet("level") > 1 \/ PrintT(ToJson([init |-> Proj]))
=============================================================================
