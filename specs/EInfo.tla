------------------------------- MODULE EInfo -------------------------------
(* billiard.einfo.ExceptionInfo / Traceback (C12): the record a task's exception is     *)
(* turned into, how deep a copy of the traceback it keeps, and its stability under any   *)
(* number of pickle round trips.  Payloads are tokens; the harness uses real exceptions   *)
(* and compares type / args / text / frames concretely at every transition.              *)
EXTENDS Integers, Sequences, TLC, Json

CONSTANTS Limit,       \* Traceback's max_frames (sys.getrecursionlimit() // 8 in production)
          Depths,      \* real traceback depths explored
          Kinds,       \* exception kinds: "exc0", "exc1", "base", "nested", "encerr" (MaybeEncodingError)
          MaxPickles

VARIABLES phase,       \* "none" | "have"
          d, kind,     \* the exception that was captured
          frames,      \* frames in the record's traceback object (excluding the marker)
          trunc,       \* a "[rest of traceback truncated]" marker closes the chain
          npickle,     \* pickle round trips so far
          formatted,   \* traceback.format_exception has been run on the current copy
          same,        \* observation: the current copy equals the one first captured
          act
vars == <<phase, d, kind, frames, trunc, npickle, formatted, same, act>>
View == <<phase, d, kind, frames, trunc, npickle, formatted, same>>

Min(a, b) == IF a < b THEN a ELSE b
Init == /\ phase = "none" /\ d = 0 /\ kind = "" /\ frames = 0 /\ trunc = FALSE /\ npickle = 0
        /\ formatted = FALSE /\ same = TRUE /\ act = [name |-> "Init"]

Capture(dd, k) ==     \* ExceptionInfo() in the `except` block of the worker
    /\ phase = "none" /\ dd \in Depths /\ k \in Kinds
    /\ phase' = "have" /\ d' = dd /\ kind' = k
    /\ frames' = Min(dd, Limit + 2) /\ trunc' = (dd > Limit + 2)
    /\ act' = [name |-> "Capture", d |-> dd, kind |-> k]
    /\ UNCHANGED <<npickle, formatted, same>>

Pickle ==             \* the record crosses a process boundary
    /\ phase = "have" /\ npickle < MaxPickles
    /\ npickle' = npickle + 1 /\ formatted' = FALSE
    /\ act' = [name |-> "Pickle"]
    /\ UNCHANGED <<phase, d, kind, frames, trunc, same>>

Format ==             \* traceback.format_exception(type, exception, record.tb)
    /\ phase = "have" /\ ~formatted
    /\ formatted' = TRUE
    /\ act' = [name |-> "Format"]
    /\ UNCHANGED <<phase, d, kind, frames, trunc, npickle, same>>

Next == (\E dd \in Depths, k \in Kinds : Capture(dd, k)) \/ Pickle \/ Format
Spec == Init /\ [][Next]_vars

DepthBounded == frames <= Limit + 2 /\ (trunc <=> d > Limit + 2) /\ (phase = "have" => frames >= 1)
RoundTripStable == same
NothingLostWhenShallow == (phase = "have" /\ d <= Limit + 2) => frames = d

Proj == [phase |-> phase, d |-> d, kind |-> kind, frames |-> frames, trunc |-> trunc,
         npickle |-> npickle, formatted |-> formatted, same |-> same]
EmitEdge == PrintT(ToJson([from |-> Proj, act |-> act', to |-> Proj', lvl |-> TLCGet("level")]))
EmitInit == TLCGet("level") > 1 \/ PrintT(ToJson([init |-> Proj]))
=============================================================================
