------------------------------ MODULE Shared ------------------------------
(* billiard.sharedctypes over billiard.heap (C15): shared objects are carved out of   *)
(* the heap's arenas; memory keeps whatever was last written to it when an object is   *)
(* dropped.  Each byte of arena memory is a token: 0 = zero, v > 0 = written by a      *)
(* Write(.., v).  An object is <<block, size, kind>>; its abstract value is the token  *)
(* every one of its bytes must read as.                                                *)
EXTENDS Heap

CONSTANTS ObjSizes,    \* byte sizes of the objects created
          Vals,        \* tokens written: a set of positive integers
          MaxObjs

VARIABLES mem,         \* sequence (per arena) of sequences of tokens
          objs,        \* set of live objects: <<block, size, val>>
          cnt          \* locked read-modify-write counter on object... (see LockedIncr)

svars == <<arenas, fl, live, reqs, pend, nsize, mem, objs, cnt, act>>

SInit == Init /\ mem = <<>> /\ objs = {} /\ cnt = 0

Bytes(b, size) == {k \in 1..(b[2] + size) : k > b[2]}     \* 1-based positions in the arena
Fill(m, b, size, v) ==
    [a \in 1..Len(m) |-> IF a = b[1] THEN [k \in 1..Len(m[a]) |-> IF k \in Bytes(b, size) THEN v ELSE m[a][k]]
                                     ELSE m[a]]
(* a new arena comes zero-filled from the kernel *)
Grown(m) == IF Len(arenas') > Len(m) THEN Append(m, [k \in 1..arenas'[Len(arenas')] |-> 0]) ELSE m

(* RawValue(type[, init]) / RawArray(type, n): malloc, memset 0, then the initial value;   *)
(* RawArray(type, initializer): malloc, every element assigned (no memset needed)          *)
New(size, init, how) ==
    /\ Cardinality(objs) < MaxObjs /\ size \in ObjSizes /\ init \in Vals \cup {0}
    /\ how \in {"value", "zeros", "initializer"}
    /\ (how = "zeros" => init = 0) /\ (how = "initializer" => init # 0)
    /\ MallocCore(size, [name |-> "New", size |-> size, init |-> init, how |-> how])
    /\ LET b == act'.got IN
        /\ mem' = Fill(Grown(mem), b, size, init)
        /\ objs' = objs \cup {<<b, size, init>>}
    /\ cnt' = cnt

Copy(o) ==     \* sharedctypes.copy(obj)
    /\ o \in objs /\ Cardinality(objs) < MaxObjs
    /\ MallocCore(o[2], [name |-> "Copy", src |-> o[1]])
    /\ LET b == act'.got IN
        /\ mem' = Fill(Grown(mem), b, o[2], o[3])
        /\ objs' = objs \cup {<<b, o[2], o[3]>>}
    /\ cnt' = cnt

Drop(o) ==     \* the last reference goes away: the block returns to the heap, memory stays dirty
    /\ o \in objs
    /\ Free(o[1], <<>>, <<>>)
    /\ objs' = objs \ {o} /\ UNCHANGED <<mem, cnt>>

Write(o, v) ==
    /\ o \in objs /\ v \in Vals /\ v # o[3]
    /\ mem' = Fill(mem, o[1], o[2], v)
    /\ objs' = (objs \ {o}) \cup {<<o[1], o[2], v>>}
    /\ act' = [name |-> "Write", b |-> o[1], v |-> v]
    /\ UNCHANGED <<arenas, fl, live, reqs, pend, nsize, cnt>>

SNext == \/ \E s \in ObjSizes, i \in Vals \cup {0}, h \in {"value", "zeros", "initializer"} : New(s, i, h)
         \/ \E o \in objs : Copy(o) \/ Drop(o)
         \/ \E o \in objs, v \in Vals : Write(o, v)
SSpec == SInit /\ [][SNext]_svars

(* ========================================================================= *)
ReadsAs(o) == {mem[o[1][1]][k] : k \in Bytes(o[1], o[2])}
(* every live object reads as exactly its value: initialised (also when its block is       *)
(* recycled dirty memory), and never changed by writes to other objects                    *)
ValueExact == \A o \in objs : o[2] = 0 \/ ReadsAs(o) = {o[3]}
(* no two live shared objects share storage *)
Isolation == \A o, p \in objs : o # p =>
                (o[1][1] # p[1][1] \/ Bytes(o[1], o[2]) \cap Bytes(p[1], p[2]) = {})
ObjectsAreLive == \A o \in objs : o[1] \in live /\ Len3(o[1]) >= o[2]
WriteTouchesOne == [][act'.name = "Write" =>
      \A a \in 1..Len(mem) : \A k \in 1..Len(mem[a]) :
          (mem'[a][k] # mem[a][k]) => (a = act'.b[1] /\ k > act'.b[2] /\ k <= act'.b[3])]_svars

SObjs == objs
SView == <<arenas, FlProj, live, reqs, pend, nsize, mem, objs>>
SProj == [arenas |-> arenas, fl |-> FlProj, live |-> live, pend |-> pend, nsize |-> nsize,
          mem |-> mem, objs |-> objs]
SEmitEdge == PrintT(ToJson([from |-> SProj, act |-> act', to |-> SProj', lvl |-> TLCGet("level")]))
SEmitInit == TLCGet("level") > 1 \/ PrintT(ToJson([init |-> SProj]))
=============================================================================
