------------------------------ MODULE Worker ------------------------------
(* billiard.pool.Worker: __call__ / workloop / _ensure_messages_consumed /        *)
(* _do_exit, one action per blocking point of the loop, plus the little piece of  *)
(* the parent that answers the acknowledgement handshake (ApplyResult._ack).      *)
(* Properties: C03 (job protocol), worker side of C08 (termination signal),       *)
(* C09 (quota, exit only after results are consumed), C12a (unserialisable        *)
(* result).                                                                       *)
EXTENDS Integers, Sequences, FiniteSets, TLC, Json

CONSTANTS NJobs,       \* tasks the environment may feed (numbered in feed order)
          Quota,       \* maxtasks, 0 = none
          Synack,      \* BOOLEAN: acknowledgement handshake enabled
          GuardLimit,  \* retries of the result-consumption guard (300 in production)
          Kinds,       \* how a task may end: subset of {"ok","raise","raise_deep","baseexc","unpicklable","unpicklable_deep","unpicklable_badrepr","memover"}
          Signals,     \* BOOLEAN: a termination signal may arrive at any blocking point
          Cancels,     \* BOOLEAN: the parent may cancel a job before its ACK is processed
          Refusals,    \* BOOLEAN: the accept callback of every even-numbered job raises (the parent
                       \* refuses the job: NACK under the handshake, accepted as usual without it)
          DevSwallow   \* pinned code (F2): SystemExit raised by the signal handler inside task
                       \* code is treated as the task's error and the loop goes on

Pid == 7           \* the worker's own pid
EX_OK == 0
EX_FAILURE == 1
EX_RECYCLE == 155
TERMCODE == -241   \* sys.exit(-(256 - SIGTERM))

VARIABLES pc,        \* "wait" | "syn" | "run" | "ensure" | "exiting" | "gone"
          cur,       \* job being handled, 0 if none
          completed,
          inq,       \* task pipe: job numbers, 0 = sentinel (None)
          fed,       \* number of tasks fed so far
          synq,      \* handshake answers: "ACK" | "NACK"
          out,       \* every message the worker has written, in order (history)
          rd,        \* how many of them the parent has processed
          counter,   \* parent-side count of consumed results (on_ready_counter)
          sleeps,    \* retries used by the consumption guard
          code,      \* value recorded by sys.exit (Worker.__call__'s _exitcode): <<>> or <<c>>
          ret,       \* workloop's return value while its `finally` (the guard) runs: <<>> or <<c>>
          status,    \* exit status passed to os._exit: <<>> or <<c>>
          onexit,    \* number of times the exit callback ran
          executed,  \* jobs whose function was actually called, in order
          cancelled, \* jobs cancelled by the parent before their ACK was processed
          nacked,    \* jobs refused
          termreq,   \* the termination-signal handler has run
          now,
          act

vars == <<pc, cur, completed, inq, fed, synq, out, rd, counter, sleeps, code, ret, status, onexit,
          executed, cancelled, nacked, termreq, now, act>>
View == <<pc, cur, completed, inq, fed, synq, out, rd, counter, sleeps, code, ret, status, onexit,
          executed, cancelled, nacked, termreq, now>>

Init == /\ pc = "wait" /\ cur = 0 /\ completed = 0 /\ inq = <<>> /\ fed = 0 /\ synq = <<>>
        /\ out = <<>> /\ rd = 0 /\ counter = 0 /\ sleeps = 0 /\ code = <<>> /\ ret = <<>> /\ status = <<>>
        /\ onexit = 0 /\ executed = <<>> /\ cancelled = {} /\ nacked = {} /\ termreq = FALSE
        /\ now = 0 /\ act = [name |-> "Init"]

Ack(j) == [t |-> "ACK", j |-> j, pid |-> Pid, time |-> now,
           fd |-> IF Synack THEN "syn" ELSE "none"]     \* the descriptor the parent is to answer on
Ready(j, r) == [t |-> "READY", j |-> j, res |-> r]
Death(c) == [t |-> "DEATH", pid |-> Pid, code |-> c]

(* ---- environment ------------------------------------------------------- *)
Feed ==     \* the parent writes the next task
    /\ fed < NJobs /\ pc # "gone"
    /\ inq' = Append(inq, fed + 1) /\ fed' = fed + 1
    /\ act' = [name |-> "Feed", j |-> fed + 1]
    /\ UNCHANGED <<pc, cur, completed, synq, out, rd, counter, sleeps, code, ret, status, onexit,
                   executed, cancelled, nacked, termreq, now>>

FeedSentinel ==
    /\ pc # "gone" /\ (IF inq = <<>> THEN TRUE ELSE inq[Len(inq)] # 0)
    /\ inq' = Append(inq, 0)
    /\ act' = [name |-> "FeedSentinel"]
    /\ UNCHANGED <<pc, cur, completed, fed, synq, out, rd, counter, sleeps, code, ret, status, onexit,
                   executed, cancelled, nacked, termreq, now>>

Tick ==
    /\ now < 3
    /\ now' = now + 1 /\ act' = [name |-> "Tick"]
    /\ UNCHANGED <<pc, cur, completed, inq, fed, synq, out, rd, counter, sleeps, code, ret, status,
                   onexit, executed, cancelled, nacked, termreq>>

Cancel(j) ==  \* ApplyResult._cancel() before the parent has processed the job's ACK
    /\ Cancels /\ Synack /\ j \in 1..fed /\ j \notin cancelled
    /\ ~\E k \in 1..rd : out[k].t = "ACK" /\ out[k].j = j
    /\ cancelled' = cancelled \cup {j}
    /\ act' = [name |-> "Cancel", j |-> j]
    /\ UNCHANGED <<pc, cur, completed, inq, fed, synq, out, rd, counter, sleeps, code, ret, status,
                   onexit, executed, nacked, termreq, now>>

Refused(j) == Refusals /\ j % 2 = 0
(* the parent consumes the next message of the worker *)
ParentRecv ==
    /\ rd < Len(out)
    /\ LET m == out[rd + 1] IN
        /\ rd' = rd + 1
        /\ IF m.t = "ACK" /\ Synack
             THEN synq' = Append(synq, IF m.j \in cancelled \/ Refused(m.j) THEN "NACK" ELSE "ACK")
             ELSE synq' = synq
        /\ counter' = IF m.t = "READY" THEN counter + 1 ELSE counter
        /\ act' = [name |-> "ParentRecv", t |-> m.t, j |-> IF m.t = "DEATH" THEN 0 ELSE m.j]
    /\ UNCHANGED <<pc, cur, completed, inq, fed, out, sleeps, code, ret, status, onexit, executed,
                   cancelled, nacked, termreq, now>>

(* ---- the loop --------------------------------------------------------------- *)
QuotaReached(c) == Quota # 0 /\ c >= Quota

(* leaving the loop: record the code like Worker.__call__ does and enter the guard *)
Leave(r) == /\ pc' = "ensure" /\ ret' = r /\ code' = code /\ sleeps' = 0

Take ==     \* wait_for_job returns a request
    /\ pc = "wait" /\ inq # <<>>
    /\ inq' = Tail(inq)
    /\ IF Head(inq) = 0
         THEN \* sentinel: raise SystemExit(EX_FAILURE) -- not through sys.exit, the recorded
              \* code (unset, or what a swallowed signal left there) stays
              /\ Leave(<<>>) /\ UNCHANGED <<cur, out>>
         ELSE /\ cur' = Head(inq)
              /\ out' = Append(out, Ack(Head(inq)))
              /\ pc' = IF Synack THEN "syn" ELSE "run"
              /\ UNCHANGED <<code, ret, sleeps>>
    /\ executed' = IF Head(inq) # 0 /\ ~Synack THEN Append(executed, Head(inq)) ELSE executed
    /\ act' = [name |-> "Take", j |-> Head(inq)]
    /\ UNCHANGED <<completed, fed, synq, rd, counter, status, onexit, cancelled,
                   nacked, termreq, now>>

Syn ==      \* wait_for_syn returns
    /\ pc = "syn" /\ synq # <<>>
    /\ synq' = Tail(synq)
    /\ IF Head(synq) = "NACK"
         THEN /\ pc' = "wait" /\ nacked' = nacked \cup {cur} /\ cur' = 0 /\ executed' = executed
         ELSE /\ pc' = "run" /\ executed' = Append(executed, cur) /\ UNCHANGED <<nacked, cur>>
    /\ act' = [name |-> "Syn", ans |-> Head(synq)]
    /\ UNCHANGED <<completed, inq, fed, out, rd, counter, sleeps, code, ret, status, onexit,
                   cancelled, termreq, now>>

AfterTask(c, mem) ==   \* what follows `completed += 1`
    IF termreq /\ ~DevSwallow            \* told to go while the task ran: leave, no guard
      THEN pc' = "exiting" /\ UNCHANGED <<code, ret, sleeps>>
    ELSE IF mem THEN Leave(<<EX_RECYCLE>>)
    ELSE IF QuotaReached(c) THEN Leave(<<EX_RECYCLE>>)
    ELSE pc' = "wait" /\ UNCHANGED <<code, ret, sleeps>>

(* results that cannot be pickled: at shallow nesting, nested beyond the recursion limit (its repr()
   fails too), with a __repr__ that raises *)
Unsendable == {"unpicklable", "unpicklable_deep", "unpicklable_badrepr"}
Finish(kind) ==   \* the task function returns / raises; result(s) written
    /\ pc = "run" /\ kind \in Kinds
    /\ LET j == cur
           res == CASE kind \in {"ok", "memover"} -> "ok"
                    [] kind \in {"raise", "raise_deep"} -> "err"    \* raise_deep: from a stack about as deep as the recursion limit allows
                    [] kind = "baseexc" -> "baseerr"
                    [] kind \in Unsendable -> "encerr"
       IN /\ out' = Append(out, Ready(j, res))
          /\ completed' = completed + 1
          /\ cur' = 0
          /\ AfterTask(completed + 1, kind = "memover")
    /\ act' = [name |-> "Finish", kind |-> kind]
    /\ UNCHANGED <<inq, fed, synq, rd, counter, status, onexit, executed, cancelled, nacked,
                   termreq, now>>

(* a termination signal: the handler runs at the blocking point the worker is at.    *)
(* caught: the task has its own `except BaseException` and carries on.               *)
Signal(caught) ==
    /\ Signals /\ ~termreq /\ pc \in {"wait", "syn", "run", "ensure"}
    /\ caught => pc = "run"
    /\ termreq' = TRUE
    /\ code' = <<TERMCODE>> /\ ret' = <<>>
    /\ IF pc = "run"
         THEN IF caught THEN UNCHANGED <<out, executed, completed, cur, pc, sleeps>>
              ELSE \* SystemExit ends the task; its failure is reported
                   /\ out' = Append(out, Ready(cur, "sysexit"))
                   /\ executed' = executed
                   /\ completed' = completed + 1 /\ cur' = 0
                   /\ IF DevSwallow
                        THEN \* ... as an ordinary task error: the loop goes on
                             IF QuotaReached(completed + 1)
                               THEN pc' = "ensure" /\ sleeps' = 0
                               ELSE pc' = "wait" /\ sleeps' = sleeps
                        ELSE pc' = "exiting" /\ sleeps' = sleeps
         ELSE \* SystemExit propagates out of the loop
              /\ pc' = IF DevSwallow /\ pc # "ensure" THEN "ensure" ELSE "exiting"
              /\ sleeps' = sleeps /\ cur' = 0
              /\ UNCHANGED <<out, executed, completed>>
    /\ act' = [name |-> "Signal", at |-> pc, caught |-> caught]
    /\ UNCHANGED <<inq, fed, synq, rd, counter, status, onexit, cancelled, nacked, now>>

(* _ensure_messages_consumed: poll the counter, sleep, give up after GuardLimit retries *)
EnsureOk ==
    /\ pc = "ensure" /\ counter >= completed
    /\ pc' = "exiting"
    /\ code' = (IF ret # <<>> THEN ret ELSE code) /\ ret' = <<>>
    /\ act' = [name |-> "EnsureOk"]
    /\ UNCHANGED <<cur, completed, inq, fed, synq, out, rd, counter, sleeps, status, onexit,
                   executed, cancelled, nacked, termreq, now>>

EnsureSleep ==
    /\ pc = "ensure" /\ counter < completed
    /\ IF sleeps + 1 >= GuardLimit
         THEN pc' = "exiting" /\ code' = (IF ret # <<>> THEN ret ELSE code) /\ ret' = <<>>
         ELSE pc' = pc /\ UNCHANGED <<code, ret>>
    /\ sleeps' = sleeps + 1
    /\ act' = [name |-> "EnsureSleep"]
    /\ UNCHANGED <<cur, completed, inq, fed, synq, out, rd, counter, status, onexit,
                   executed, cancelled, nacked, termreq, now>>

Exit ==     \* _do_exit: exit callback, DEATH notice, os._exit
    /\ pc = "exiting"
    /\ LET c == IF code = <<>> THEN EX_OK ELSE code[1] IN
        /\ onexit' = onexit + 1
        /\ out' = Append(out, Death(c))
        /\ status' = <<c>>
    /\ pc' = "gone"
    /\ act' = [name |-> "Exit"]
    /\ UNCHANGED <<cur, completed, inq, fed, synq, rd, counter, sleeps, code, ret, executed, cancelled,
                   nacked, termreq, now>>

Next == Feed \/ FeedSentinel \/ Tick \/ (\E j \in 1..NJobs : Cancel(j)) \/ ParentRecv
        \/ Take \/ Syn \/ (\E k \in Kinds : Finish(k)) \/ (\E c \in BOOLEAN : Signal(c))
        \/ EnsureOk \/ EnsureSleep \/ Exit

Spec == Init /\ [][Next]_vars

(* ========================================================================= *)
Msgs(t) == SelectSeq(out, LAMBDA m : m.t = t)
JobMsgs(j) == SelectSeq(out, LAMBDA m : m.t # "DEATH" /\ m.j = j)

(* C03: per job ACK then exactly one READY, jobs not interleaved *)
StreamShape ==
    \A k \in 1..Len(out) :
        /\ (out[k].t = "READY" => k > 1 /\ out[k - 1].t = "ACK" /\ out[k - 1].j = out[k].j)
        /\ (out[k].t = "ACK" /\ k > 1 => out[k - 1].t = "READY" \/ out[k - 1].j \in nacked)
OneResultPerJob == \A j \in 1..NJobs :
        Cardinality({k \in 1..Len(out) : out[k].t = "READY" /\ out[k].j = j}) <= 1
AckCarries == \A k \in 1..Len(out) : out[k].t = "ACK" =>
                  (out[k].pid = Pid /\ out[k].time <= now /\ out[k].fd = (IF Synack THEN "syn" ELSE "none"))
ResultOnlyAfterAccept == \A k \in 1..Len(out) : out[k].t = "READY" =>
        \E a \in 1..(k - 1) : out[a].t = "ACK" /\ out[a].j = out[k].j
(* whatever way a task ends, the job it belongs to gets its result message *)
RunHasResult == \A i \in 1..Len(executed) : (i < Len(executed) \/ pc # "run") =>
                    \E k \in 1..Len(out) : out[k].t = "READY" /\ out[k].j = executed[i]
(* NACK honoured *)
Executed == {executed[i] : i \in 1..Len(executed)}
NackHonoured == /\ \A j \in nacked : j \notin Executed
                /\ \A j \in nacked : ~\E k \in 1..Len(out) : out[k].t = "READY" /\ out[k].j = j
CancelRefused == [][act'.name = "Syn" /\ (cur \in cancelled \/ Refused(cur)) => act'.ans = "NACK"]_vars
(* under the handshake every acceptance the parent has processed got exactly one answer *)
AcksAnswered == Synack => Cardinality({k \in 1..rd : out[k].t = "ACK"})
                             = Len(synq) + Len(executed) + Cardinality(nacked)
CountsExecutedOnly == completed = Len(executed) - (IF pc = "run" THEN 1 ELSE 0)
(* quota *)
QuotaRespected == Quota # 0 => completed <= Quota
QuotaExitStatus == (pc = "gone" /\ ~termreq /\ QuotaReached(completed)) =>
                      status = <<EX_RECYCLE>>
RecycleOnlyWhenDue == (pc = "gone" /\ status = <<EX_RECYCLE>>) =>
                      (QuotaReached(completed) \/ "memover" \in Kinds)
(* exits only after its results were consumed, or the guard ran out, or it was told to go *)
ExitAfterConsumed == [][pc = "ensure" /\ pc' = "exiting" =>
                            counter >= completed \/ sleeps' >= GuardLimit \/ termreq']_vars
(* C08, worker side: once the termination signal was handled the worker takes no further
   job, runs its exit callback exactly once and exits *)
SignalMeansNoMoreJobs == [][termreq => ~(act'.name = "Take" /\ act'.j # 0)]_vars
SignalMeansNoGuard == [][(termreq /\ act'.name = "EnsureSleep") => FALSE]_vars
ExitCallbackOnce == onexit <= 1 /\ (pc = "gone" <=> onexit = 1) /\ (pc = "gone" <=> status # <<>>)
SignalLeadsOut == termreq => pc \in {"run", "exiting", "gone", "ensure"}   \* "run": a task that swallowed it is still finishing
(* C12a: an unserialisable result is reported as an encoding error for that job and the
   worker goes on *)
EncodingErrorReported == [][act'.name = "Finish" /\ act'.kind \in Unsendable =>
                                out'[Len(out')] = Ready(cur, "encerr") /\ pc' # "gone"]_vars

Proj == [pc |-> pc, cur |-> cur, completed |-> completed, inq |-> inq, synq |-> synq,
         fed |-> fed, cancelled |-> cancelled, code |-> code, ret |-> ret,
         out |-> out, rd |-> rd, counter |-> counter, sleeps |-> sleeps, status |-> status,
         onexit |-> onexit, executed |-> executed, nacked |-> nacked, termreq |-> termreq,
         now |-> now]
EmitEdge == PrintT(ToJson([from |-> Proj, act |-> act', to |-> Proj', lvl |-> TLCGet("level")]))
EmitInit == TLCGet("level") > 1 \/ PrintT(ToJson([init |-> Proj]))
=============================================================================
