-------------------------------- MODULE Iter --------------------------------
(* The consumer side of Pool.imap / imap_unordered: one thread iterating over an          *)
(* IMapIterator / IMapUnorderedIterator with next(timeout) while the pool's result handler  *)
(* delivers parts (_set) and the task feeder announces the length (_set_length).            *)
(* Granularity: the iterator's condition variable.  Every critical section is one action;   *)
(* the consumer is seen reaching the lock (`want`), sleeping in wait() (`waiting`), having   *)
(* been notified or timed out but not yet running again (`notified`, `timedout`).            *)
(* C02 / C01: items come out in order (imap), each part exactly once; the end of the         *)
(* iteration is reported exactly when every part has been delivered; a consumer that was     *)
(* woken is never told "timeout"; no wake-up is lost.                                        *)
EXTENDS Integers, Sequences, FiniteSets, TLC, Json
CONSTANTS Kind,       \* "imap" | "imapu"
          N,          \* parts
          Fails,      \* parts whose task raised
          Timed,      \* subset of BOOLEAN: next() is called with / without a timeout
          MaxCalls    \* calls of next() per behaviour
VARIABLES items,      \* parts ready to be taken, in order
          index,      \* parts moved to `items` so far
          lenset,     \* _set_length has been called
          unsorted,   \* imap: parts that arrived ahead of their turn
          done,       \* parts delivered by the pool
          cpc,        \* consumer: "idle" | "want" | "waiting" | "notified" | "timedout"
          timed,      \* the current call has a timeout
          ncalls,
          cres,       \* what next() returned / raised, in order: <<"item", i>> <<"err", i>> <<"stop">> <<"timeout">>
          act
vars == <<items, index, lenset, unsorted, done, cpc, timed, ncalls, cres, act>>
View == <<items, index, lenset, unsorted, done, cpc, timed, ncalls, cres>>
Parts == 1..N
Init == /\ items = <<>> /\ index = 0 /\ lenset = FALSE /\ unsorted = {} /\ done = {}
        /\ cpc = "idle" /\ timed = FALSE /\ ncalls = 0 /\ cres = <<>> /\ act = [name |-> "Init"]
Ended == lenset /\ index = N
Res(i) == IF i \in Fails THEN <<"err", i>> ELSE <<"item", i>>
Notify(pc) == IF pc = "waiting" THEN "notified" ELSE pc
(* parts released from the reorder buffer once part i has been appended *)
RECURSIVE Run(_, _)
Run(k, us) == IF k \in us THEN <<k>> \o Run(k + 1, us) ELSE <<>>
(* -- the pool ---------------------------------------------------------------- *)
P_Set(i) ==
    /\ i \in Parts \ done /\ done' = done \cup {i}
    /\ IF Kind = "imapu"
         THEN /\ items' = Append(items, i) /\ index' = index + 1 /\ cpc' = Notify(cpc) /\ UNCHANGED unsorted
         ELSE IF index = i - 1
                THEN LET more == Run(i + 1, unsorted) IN
                     /\ items' = items \o <<i>> \o more /\ index' = i + Len(more)
                     /\ unsorted' = unsorted \ {more[k] : k \in 1..Len(more)}
                     /\ cpc' = Notify(cpc)
                ELSE /\ unsorted' = unsorted \cup {i} /\ UNCHANGED <<items, index, cpc>>
    /\ act' = [name |-> "P_Set", i |-> i]
    /\ UNCHANGED <<lenset, timed, ncalls, cres>>
P_SetLength ==
    /\ ~lenset /\ lenset' = TRUE
    /\ cpc' = IF index = N THEN Notify(cpc) ELSE cpc
    /\ act' = [name |-> "P_SetLength"]
    /\ UNCHANGED <<items, index, unsorted, done, timed, ncalls, cres>>
(* -- the consumer ------------------------------------------------------------ *)
C_Call(t) ==
    /\ cpc = "idle" /\ ncalls < MaxCalls /\ t \in Timed
    /\ cpc' = "want" /\ timed' = t /\ ncalls' = ncalls + 1
    /\ act' = [name |-> "C_Call", timed |-> t]
    /\ UNCHANGED <<items, index, lenset, unsorted, done, cres>>
Take == /\ items' = Tail(items) /\ cres' = Append(cres, Res(Head(items))) /\ cpc' = "idle"
C_Enter ==
    /\ cpc = "want"
    /\ IF items # <<>> THEN Take
       ELSE IF Ended THEN /\ cres' = Append(cres, <<"stop">>) /\ cpc' = "idle" /\ UNCHANGED items
       ELSE /\ cpc' = "waiting" /\ UNCHANGED <<items, cres>>
    /\ act' = [name |-> "C_Enter"]
    /\ UNCHANGED <<index, lenset, unsorted, done, timed, ncalls>>
C_Timeout ==
    /\ cpc = "waiting" /\ timed /\ cpc' = "timedout"
    /\ act' = [name |-> "C_Timeout"]
    /\ UNCHANGED <<items, index, lenset, unsorted, done, timed, ncalls, cres>>
C_Wake ==
    /\ cpc \in {"notified", "timedout"}
    /\ IF items # <<>> THEN Take
       ELSE IF Ended THEN /\ cres' = Append(cres, <<"stop">>) /\ cpc' = "idle" /\ UNCHANGED items
       ELSE /\ cres' = Append(cres, <<"timeout">>) /\ cpc' = "idle" /\ UNCHANGED items
    /\ act' = [name |-> "C_Wake"]
    /\ UNCHANGED <<index, lenset, unsorted, done, timed, ncalls>>
Next == P_SetLength \/ C_Enter \/ C_Timeout \/ C_Wake \/ (\E i \in Parts : P_Set(i)) \/ (\E t \in Timed : C_Call(t))
Spec == Init /\ [][Next]_vars
(* ---------------------------------------------------------------------------- *)
IsDeliv(r) == r[1] \in {"item", "err"}
Deliv == SelectSeq(cres, IsDeliv)
InOrder == Kind = "imap" => \A k \in 1..Len(Deliv) : Deliv[k][2] = k
NoDupNoAlien == /\ \A k \in 1..Len(Deliv) : Deliv[k][2] \in done /\ Deliv[k] = Res(Deliv[k][2])
                /\ \A j, k \in 1..Len(Deliv) : j # k => Deliv[j][2] # Deliv[k][2]
(* the end is reported only when every part has come out *)
StopOnlyAtEnd == \A k \in 1..Len(cres) : cres[k] = <<"stop">> =>
                     lenset /\ Len(SelectSeq(SubSeq(cres, 1, k), IsDeliv)) = N
(* a consumer that was notified, or that never slept, is not told "timeout" *)
TimeoutOnlyIfTimedOut == [][(Len(cres') > Len(cres) /\ cres'[Len(cres')] = <<"timeout">>) => cpc = "timedout"]_vars
(* nothing to take and no end in sight: only then does the consumer sleep on *)
NoLostWakeup == cpc = "waiting" => (items = <<>> /\ ~Ended)
Conserved == index = Len(Deliv) + Len(items) /\ index + Cardinality(unsorted) = Cardinality(done)
Proj == [items |-> items, index |-> index, lenset |-> lenset, unsorted |-> unsorted, done |-> done, cpc |-> cpc,
         timed |-> timed, ncalls |-> ncalls, cres |-> cres]
EmitEdge == PrintT(ToJson([from |-> Proj, act |-> act', to |-> Proj', lvl |-> TLCGet("level")]))
EmitInit == TLCGet("level") > 1 \/ PrintT(ToJson([init |-> Proj]))
=============================================================================
