---------------------------- MODULE FeedMonitor ----------------------------
(* Layer-2 monitor: Feed's own formulas evaluated on observed runs of the real TaskHandler. *)
EXTENDS Feed, IOUtils
VARIABLES tid, l
Obs == JsonDeserialize(IOEnv.OBS_FILE)
mvars == <<vars, tid, l>>
S(t, k) == Obs[t][k].state
JobOf(r) == [ecb |-> r.ecb, res |-> r.res, ix |-> r.ix, uns |-> {r.uns[i] : i \in 1..Len(r.uns)},
             len |-> r.len, inc |-> r.inc]
Pairs(q) == [k \in 1..Len(q) |-> <<q[k][1], q[k][2]>>]
Blames(q) == [k \in 1..Len(q) |-> [to |-> <<q[k].to[1], q[k].to[2]>>, src |-> <<q[k].src[1], q[k].src[2]>>]]
St(t, k) == [shape |-> [j \in J |-> S(t, 1).shape[j]],
             sub |-> S(t, k).sub, tq |-> S(t, k).tq, stopq |-> S(t, k).stopq, hstate |-> S(t, k).hstate,
             pc |-> S(t, k).pc, cur |-> S(t, k).cur, pos |-> S(t, k).pos, sent |-> Pairs(S(t, k).sent),
             job |-> [j \in J |-> JobOf(S(t, k).job[j])], blame |-> Blames(S(t, k).blame),
             fin |-> {S(t, k).fin[i] : i \in 1..Len(S(t, k).fin)},
             outs |-> S(t, k).outs, wsent |-> S(t, k).wsent, tellio |-> S(t, k).tellio,
             nfail |-> S(t, k).nfail, ndisc |-> S(t, k).ndisc, act |-> Obs[t][k].act]
MonInit == tid \in 1..Len(Obs) /\ l = 1 /\ shape = St(tid, 1).shape /\ sub = St(tid, 1).sub /\ tq = St(tid, 1).tq /\ stopq = St(tid, 1).stopq /\ hstate = St(tid, 1).hstate /\ pc = St(tid, 1).pc /\ cur = St(tid, 1).cur /\ pos = St(tid, 1).pos /\ sent = St(tid, 1).sent /\ job = St(tid, 1).job /\ blame = St(tid, 1).blame /\ fin = St(tid, 1).fin /\ outs = St(tid, 1).outs /\ wsent = St(tid, 1).wsent /\ tellio = St(tid, 1).tellio /\ nfail = St(tid, 1).nfail /\ ndisc = St(tid, 1).ndisc /\ act = St(tid, 1).act
MonNext == l < Len(Obs[tid]) /\ l' = l + 1 /\ tid' = tid /\ shape' = St(tid, l + 1).shape /\ sub' = St(tid, l + 1).sub /\ tq' = St(tid, l + 1).tq /\ stopq' = St(tid, l + 1).stopq /\ hstate' = St(tid, l + 1).hstate /\ pc' = St(tid, l + 1).pc /\ cur' = St(tid, l + 1).cur /\ pos' = St(tid, l + 1).pos /\ sent' = St(tid, l + 1).sent /\ job' = St(tid, l + 1).job /\ blame' = St(tid, l + 1).blame /\ fin' = St(tid, l + 1).fin /\ outs' = St(tid, l + 1).outs /\ wsent' = St(tid, l + 1).wsent /\ tellio' = St(tid, l + 1).tellio /\ nfail' = St(tid, l + 1).nfail /\ ndisc' = St(tid, l + 1).ndisc /\ act' = St(tid, l + 1).act
=============================================================================
