------------------------------- MODULE Cond -------------------------------
(* billiard.synchronize.Condition and Event (C17), one action per operation on the   *)
(* underlying semaphores, exactly in the order the code performs them:               *)
(*   lock (mutex), sleeping_count (sl), woken_count (wk), wait_semaphore (ws), and    *)
(*   Event's flag.                                                                    *)
(* Each thread runs a program: a sequence of calls, each wrapped in `with cond:`.     *)
(* A blocked timed acquire may time out at any moment (even if a token is there).     *)
EXTENDS Integers, Sequences, FiniteSets, TLC, Json

CONSTANTS Threads,     \* e.g. 1..3
          Programs     \* set of functions Threads -> Seq(op); Init picks one
          \* op \in {"wait","twait","notify","notify_all","set","clear","is_set","ewait","etwait"}

VARIABLES prog,        \* remaining calls per thread
          pc,          \* per thread
          cont,        \* where the wait sub-sequence returns to: "rel" | "e_try2"
          lock,        \* 0 or the holder
          sl, wk, ws, flag,
          got,         \* per thread: result of the semaphore wait in progress
          n,           \* per thread: notify_all's local `sleepers` / wakes still to collect
          ret,         \* per thread: results of finished calls, in order
          err,         \* "" or the assertion of the code that failed
          hist,        \* per thread: the semaphore operations of the call in progress: <<sem, op, ok>>
          pend,        \* per thread: the semaphore operation it is about to perform: <<sem, op, timed>>
          owed,        \* ghost, per notifier: untimed waiters that were asleep when its notify_all began
          woke,        \* ghost, per notifier: waiters released since its notify began
          solo,        \* ghost, per notifier: the only wait() in progress when notify began, or 0
          act

vars == <<prog, pc, cont, lock, sl, wk, ws, flag, got, n, ret, err, hist, pend, owed, woke, solo, act>>
View == <<prog, pc, cont, lock, sl, wk, ws, flag, got, n, ret, err, hist, pend, owed, woke, solo>>

Init == /\ prog \in Programs
        /\ pc = [t \in Threads |-> "idle"] /\ cont = [t \in Threads |-> "rel"]
        /\ lock = 0 /\ sl = 0 /\ wk = 0 /\ ws = 0 /\ flag = 0
        /\ got = [t \in Threads |-> FALSE] /\ n = [t \in Threads |-> 0]
        /\ ret = [t \in Threads |-> <<>>] /\ err = "" /\ hist = [t \in Threads |-> <<>>]
        /\ pend = [t \in Threads |-> IF prog[t] = <<>> THEN <<"none", "none", FALSE>> ELSE <<"lock", "acq", FALSE>>]
        /\ owed = [t \in Threads |-> {}] /\ woke = [t \in Threads |-> 0]
        /\ solo = [t \in Threads |-> 0]
        /\ act = [name |-> "Init"]

Op(t) == Head(prog[t])
Timed(t) == Op(t) \in {"twait", "etwait"}
(* threads inside the wait sub-sequence: announced (sl released) and not yet acknowledged *)
InWait(t) == pc[t] \in {"w_unl", "w_ws", "w_wk"}
Asleep(t) == pc[t] = "w_ws"

A(t, sem, op, ok) == [name |-> "Step", t |-> t, sem |-> sem, op |-> op, ok |-> ok]

(* first pc after the lock was taken, per call *)
First(o) == CASE o \in {"wait", "twait"} -> "w_sl"
              [] o = "notify" -> "n_chk"
              [] o = "notify_all" -> "a_chk"
              [] o = "is_set" -> "i_try"
              [] o = "set" -> "s_try"
              [] o = "clear" -> "c_try"
              [] o \in {"ewait", "etwait"} -> "e_try"

Go(t, p) == pc' = [pc EXCEPT ![t] = p]

Begin(t) ==     \* `with cond:` -- blocks until the lock is free
    /\ pc[t] = "idle" /\ prog[t] # <<>> /\ lock = 0 /\ err = ""
    /\ lock' = t /\ Go(t, First(Op(t)))
    /\ cont' = [cont EXCEPT ![t] = IF Op(t) \in {"ewait", "etwait"} THEN "e_try2" ELSE "rel"]
    /\ act' = A(t, "lock", "acq", TRUE)
    /\ UNCHANGED <<prog, sl, wk, ws, flag, got, n, ret, err>>

Rel(t, r) ==    \* leaving `with cond:`; the call returns r
    /\ lock' = 0 /\ Go(t, "idle")
    /\ prog' = [prog EXCEPT ![t] = Tail(prog[t])]
    /\ ret' = [ret EXCEPT ![t] = Append(ret[t], r)]
    /\ act' = A(t, "lock", "rel", TRUE)

(* ---- Condition.wait ------------------------------------------------------------- *)
W_sl(t) == /\ pc[t] = "w_sl" /\ sl' = sl + 1 /\ Go(t, "w_unl") /\ act' = A(t, "sl", "rel", TRUE)
           /\ UNCHANGED <<prog, cont, lock, wk, ws, flag, got, n, ret, err>>
W_unl(t) == /\ pc[t] = "w_unl" /\ lock' = 0 /\ Go(t, "w_ws") /\ act' = A(t, "lock", "rel", TRUE)
            /\ UNCHANGED <<prog, cont, sl, wk, ws, flag, got, n, ret, err>>
W_ws(t) ==  \* the token arrives
    /\ pc[t] = "w_ws" /\ ws > 0
    /\ ws' = ws - 1 /\ got' = [got EXCEPT ![t] = TRUE] /\ Go(t, "w_wk")
    /\ act' = A(t, "ws", "acq", TRUE)
    /\ UNCHANGED <<prog, cont, lock, sl, wk, flag, n, ret, err>>
W_timeout(t) ==   \* a timed wait gives up (the futex wait may return just before the post)
    /\ pc[t] = "w_ws" /\ Timed(t)
    /\ got' = [got EXCEPT ![t] = FALSE] /\ Go(t, "w_wk")
    /\ act' = A(t, "ws", "acq", FALSE)
    /\ UNCHANGED <<prog, cont, lock, sl, wk, ws, flag, n, ret, err>>
W_wk(t) == /\ pc[t] = "w_wk" /\ wk' = wk + 1 /\ Go(t, "w_lk") /\ act' = A(t, "wk", "rel", TRUE)
           /\ UNCHANGED <<prog, cont, lock, sl, ws, flag, got, n, ret, err>>
W_lk(t) == /\ pc[t] = "w_lk" /\ lock = 0 /\ lock' = t /\ Go(t, cont[t])
           /\ act' = A(t, "lock", "acq", TRUE)
           /\ UNCHANGED <<prog, cont, sl, wk, ws, flag, got, n, ret, err>>
W_rel(t) == /\ pc[t] = "rel" /\ Op(t) \in {"wait", "twait"} /\ Rel(t, got[t])
            /\ UNCHANGED <<cont, sl, wk, ws, flag, got, n, err>>

(* ---- notify / notify_all ------------------------------------------------------------ *)
(* ghost bookkeeping when a notification call begins *)
Sleepers == {u \in Threads : Asleep(u) /\ ~Timed(u)}
WaitCalls == {u \in Threads : InWait(u) \/ pc[u] = "w_lk"}

N_chk(t) ==   \* assert not wait_semaphore.acquire(False)
    /\ pc[t] \in {"n_chk", "a_chk"}
    /\ IF ws > 0 THEN err' = "wait_semaphore not zero at notify" /\ ws' = ws - 1
                 ELSE UNCHANGED <<err, ws>>
    /\ Go(t, IF pc[t] = "n_chk" THEN "n_loop" ELSE "a_loop")
    /\ act' = A(t, "ws", "tryacq", ws > 0)
    /\ UNCHANGED <<prog, cont, lock, sl, wk, flag, got, n, ret>>

N_loop(t) ==  \* while woken_count.acquire(False):
    /\ pc[t] \in {"n_loop", "a_loop"}
    /\ IF wk > 0 THEN /\ wk' = wk - 1 /\ Go(t, IF pc[t] = "n_loop" THEN "n_loop_s" ELSE "a_loop_s")
                 ELSE /\ wk' = wk /\ Go(t, IF pc[t] = "n_loop" THEN "n_grab" ELSE "a_grab")
    /\ n' = [n EXCEPT ![t] = 0]
    /\ act' = A(t, "wk", "tryacq", wk > 0)
    /\ UNCHANGED <<prog, cont, lock, sl, ws, flag, got, ret, err>>

N_loop_s(t) ==  \* res = sleeping_count.acquire(False); assert res
    /\ pc[t] \in {"n_loop_s", "a_loop_s"}
    /\ IF sl > 0 THEN sl' = sl - 1 /\ err' = err
                 ELSE sl' = sl /\ err' = "sleeping_count exhausted while reconciling"
    /\ Go(t, IF pc[t] = "n_loop_s" THEN "n_loop" ELSE "a_loop")
    /\ act' = A(t, "sl", "tryacq", sl > 0)
    /\ UNCHANGED <<prog, cont, lock, wk, ws, flag, got, n, ret>>

N_grab(t) ==    \* notify: if sleeping_count.acquire(False):
    /\ pc[t] = "n_grab"
    /\ IF sl > 0 THEN sl' = sl - 1 /\ Go(t, "n_post") ELSE sl' = sl /\ Go(t, "rel")
    /\ act' = A(t, "sl", "tryacq", sl > 0)
    /\ UNCHANGED <<prog, cont, lock, wk, ws, flag, got, n, ret, err>>
N_post(t) == /\ pc[t] = "n_post" /\ ws' = ws + 1 /\ Go(t, "n_wake") /\ act' = A(t, "ws", "rel", TRUE)
             /\ UNCHANGED <<prog, cont, lock, sl, wk, flag, got, n, ret, err>>
N_wake(t) == /\ pc[t] = "n_wake" /\ wk > 0 /\ wk' = wk - 1 /\ Go(t, "n_zero")
             /\ act' = A(t, "wk", "acq", TRUE)
             /\ UNCHANGED <<prog, cont, lock, sl, ws, flag, got, n, ret, err>>
N_zero(t) == /\ pc[t] = "n_zero" /\ ws' = (IF ws > 0 THEN ws - 1 ELSE ws) /\ Go(t, "rel")
             /\ act' = A(t, "ws", "tryacq", ws > 0)
             /\ UNCHANGED <<prog, cont, lock, sl, wk, flag, got, n, ret, err>>

A_grab(t) ==    \* notify_all: while sleeping_count.acquire(False): wait_semaphore.release()
    /\ pc[t] = "a_grab"
    /\ IF sl > 0 THEN sl' = sl - 1 /\ Go(t, "a_post")
                 ELSE sl' = sl /\ Go(t, IF n[t] > 0 THEN "a_wake" ELSE "rel")
    /\ act' = A(t, "sl", "tryacq", sl > 0)
    /\ UNCHANGED <<prog, cont, lock, wk, ws, flag, got, n, ret, err>>
A_post(t) == /\ pc[t] = "a_post" /\ ws' = ws + 1 /\ n' = [n EXCEPT ![t] = n[t] + 1]
             /\ Go(t, "a_grab") /\ act' = A(t, "ws", "rel", TRUE)
             /\ UNCHANGED <<prog, cont, lock, sl, wk, flag, got, ret, err>>
A_wake(t) == /\ pc[t] = "a_wake" /\ wk > 0 /\ wk' = wk - 1
             /\ n' = [n EXCEPT ![t] = n[t] - 1]
             /\ Go(t, IF n[t] - 1 > 0 THEN "a_wake" ELSE "a_zero")
             /\ act' = A(t, "wk", "acq", TRUE)
             /\ UNCHANGED <<prog, cont, lock, sl, ws, flag, got, ret, err>>
A_zero(t) == /\ pc[t] = "a_zero"
             /\ IF ws > 0 THEN ws' = ws - 1 /\ Go(t, "a_zero") ELSE ws' = ws /\ Go(t, "rel")
             /\ act' = A(t, "ws", "tryacq", ws > 0)
             /\ UNCHANGED <<prog, cont, lock, sl, wk, flag, got, n, ret, err>>
N_rel(t) == /\ pc[t] = "rel" /\ Op(t) \in {"notify", "notify_all", "set", "clear"} /\ Rel(t, TRUE)
            /\ UNCHANGED <<cont, sl, wk, ws, flag, got, n, err>>

(* ---- Event --------------------------------------------------------------------------- *)
TryFlag(t, from, yes, no) ==
    /\ pc[t] = from
    /\ IF flag > 0 THEN flag' = flag - 1 /\ Go(t, yes) ELSE flag' = flag /\ Go(t, no)
    /\ act' = A(t, "flag", "tryacq", flag > 0)
    /\ UNCHANGED <<prog, cont, lock, sl, wk, ws, got, n, ret, err>>
PutFlag(t, from, to) ==
    /\ pc[t] = from /\ flag' = flag + 1 /\ Go(t, to) /\ act' = A(t, "flag", "rel", TRUE)
    /\ UNCHANGED <<prog, cont, lock, sl, wk, ws, got, n, ret, err>>

I_try(t) == TryFlag(t, "i_try", "i_rel", "i_no")
I_rel(t) == PutFlag(t, "i_rel", "i_yes")
I_ret(t) == /\ pc[t] \in {"i_yes", "i_no"} /\ Rel(t, pc[t] = "i_yes")
            /\ UNCHANGED <<cont, sl, wk, ws, flag, got, n, err>>
S_try(t) == TryFlag(t, "s_try", "s_rel", "s_rel")
S_rel(t) == PutFlag(t, "s_rel", "a_chk")
C_try(t) == TryFlag(t, "c_try", "rel", "rel")
E_try(t) == TryFlag(t, "e_try", "e_rel", "w_sl")
E_rel(t) == PutFlag(t, "e_rel", "e_try2")
E_try2(t) == TryFlag(t, "e_try2", "e_rel2", "e_no")
E_rel2(t) == PutFlag(t, "e_rel2", "e_yes")
E_ret(t) == /\ pc[t] \in {"e_yes", "e_no"} /\ Rel(t, pc[t] = "e_yes")
            /\ UNCHANGED <<cont, sl, wk, ws, flag, got, n, err>>

Step(t) == \/ Begin(t) \/ W_sl(t) \/ W_unl(t) \/ W_ws(t) \/ W_timeout(t) \/ W_wk(t) \/ W_lk(t) \/ W_rel(t)
           \/ N_chk(t) \/ N_loop(t) \/ N_loop_s(t) \/ N_grab(t) \/ N_post(t) \/ N_wake(t) \/ N_zero(t)
           \/ A_grab(t) \/ A_post(t) \/ A_wake(t) \/ A_zero(t) \/ N_rel(t)
           \/ I_try(t) \/ I_rel(t) \/ I_ret(t) \/ S_try(t) \/ S_rel(t) \/ C_try(t)
           \/ E_try(t) \/ E_rel(t) \/ E_try2(t) \/ E_rel2(t) \/ E_ret(t)

(* ---- observables ----------------------------------------------------------------- *)
(* what each pc is about to do *)
PendOf(p, timed) ==
    CASE p \in {"w_sl"} -> <<"sl", "rel", FALSE>>
      [] p \in {"w_unl", "rel", "i_yes", "i_no", "e_yes", "e_no"} -> <<"lock", "rel", FALSE>>
      [] p = "w_ws" -> <<"ws", "acq", timed>>
      [] p = "w_wk" -> <<"wk", "rel", FALSE>>
      [] p = "w_lk" -> <<"lock", "acq", FALSE>>
      [] p \in {"n_chk", "a_chk", "n_zero", "a_zero"} -> <<"ws", "tryacq", FALSE>>
      [] p \in {"n_loop", "a_loop"} -> <<"wk", "tryacq", FALSE>>
      [] p \in {"n_loop_s", "a_loop_s", "n_grab", "a_grab"} -> <<"sl", "tryacq", FALSE>>
      [] p \in {"n_post", "a_post"} -> <<"ws", "rel", FALSE>>
      [] p \in {"n_wake", "a_wake"} -> <<"wk", "acq", FALSE>>
      [] p \in {"i_try", "s_try", "c_try", "e_try", "e_try2"} -> <<"flag", "tryacq", FALSE>>
      [] p \in {"i_rel", "s_rel", "e_rel", "e_rel2"} -> <<"flag", "rel", FALSE>>
PendNext == [t \in Threads |->
               IF pc'[t] = "idle"
                 THEN (IF prog'[t] = <<>> THEN <<"none", "none", FALSE>> ELSE <<"lock", "acq", FALSE>>)
                 ELSE PendOf(pc'[t], Head(prog'[t]) \in {"twait", "etwait"})]
HistNext == [t \in Threads |-> IF act'.t # t THEN hist[t]
                               ELSE IF pc'[t] = "idle" THEN <<>>
                               ELSE Append(hist[t], <<act'.sem, act'.op, act'.ok>>)]

(* everything below is phrased over prog, hist, pend, the semaphore values, ret, err and
   the step label only, so that it can be evaluated on observed executions as well *)
Done(t, sem, op) == \E i \in 1..Len(hist[t]) : hist[t][i][1] = sem /\ hist[t][i][2] = op /\ hist[t][i][3]
Count(t, sem, op) == Cardinality({i \in 1..Len(hist[t]) : hist[t][i][1] = sem /\ hist[t][i][2] = op
                                                            /\ hist[t][i][3]})
InCall(t) == hist[t] # <<>>
OpOf(t) == IF prog[t] = <<>> THEN "none" ELSE Head(prog[t])
IsWaitOp(t) == OpOf(t) \in {"wait", "twait", "ewait", "etwait"}
IsTimed(t) == OpOf(t) \in {"twait", "etwait"}
OAsleep(t) == pend[t][1] = "ws" /\ pend[t][2] = "acq"
Announced(t) == InCall(t) /\ IsWaitOp(t) /\ Done(t, "sl", "rel")
Acked(t) == Done(t, "wk", "rel")
Holds(t) == Count(t, "lock", "acq") - Count(t, "lock", "rel") = 1
ONotifying(t) == InCall(t) /\ OpOf(t) \in {"notify", "notify_all", "set"}
                 /\ (OpOf(t) = "set" => Done(t, "flag", "rel"))
Began(t) == act'.t = t /\ hist[t] = <<>> /\ hist'[t] # <<>>      \* first operation of a call
Released(u) == act'.t = u /\ OAsleep(u) /\ act'.ok
OSleepers == {u \in Threads : OAsleep(u) /\ ~IsTimed(u)}
OWaitCalls == {u \in Threads : Announced(u)}
OwedNext == [t \in Threads |->
               IF Began(t) THEN (IF OpOf(t) \in {"notify_all", "set"} THEN OSleepers ELSE {})
               ELSE owed[t] \ {u \in Threads : Released(u)}]
WokeNext == [t \in Threads |->
               IF Began(t) THEN 0
               ELSE IF InCall(t) /\ OpOf(t) \in {"notify", "notify_all", "set"}
                      THEN woke[t] + Cardinality({u \in Threads : Released(u)})
               ELSE woke[t]]
SoloNext == [t \in Threads |->
               IF Began(t)
                 THEN (IF OpOf(t) = "notify" /\ Cardinality(OWaitCalls) = 1
                          /\ \E u \in OWaitCalls : OAsleep(u) /\ ~IsTimed(u)
                       THEN CHOOSE u \in OWaitCalls : TRUE ELSE 0)
                 ELSE solo[t]]
Ghosts == /\ hist' = HistNext /\ pend' = PendNext
          /\ owed' = OwedNext /\ woke' = WokeNext /\ solo' = SoloNext

Next == \E t \in Threads : Step(t) /\ Ghosts
Spec == Init /\ [][Next]_vars

(* ========================================================================= *)
AboutToReturn(t) == InCall(t) /\ pend[t][1] = "lock" /\ pend[t][2] = "rel"
                    /\ (IsWaitOp(t) => Acked(t))
(* a Lock admits one holder *)
Mutex == \A t \in Threads : Holds(t) => lock = t
SemNonNeg == sl >= 0 /\ wk >= 0 /\ ws >= 0 /\ flag >= 0 /\ flag <= 1
(* the code's own assertions never fire *)
NoAssert == err = ""
(* notify_all: every untimed waiter asleep when it began has been released when it returns *)
NotifyAllWakes == \A t \in Threads : (AboutToReturn(t) /\ OpOf(t) \in {"notify_all", "set"}) => owed[t] = {}
(* notify releases at most one waiter ... *)
NotifyAtMostOne == \A t \in Threads : (InCall(t) /\ OpOf(t) = "notify") => woke[t] <= 1
(* ... and if exactly one wait() call was in progress, asleep and untimed, it is that one *)
NotifyWakesOnly == \A t \in Threads : (AboutToReturn(t) /\ OpOf(t) = "notify" /\ solo[t] # 0)
                        => ~OAsleep(solo[t])
(* a wait that times out returns False; one that is released returns True *)
WaitResult == [][\A t \in Threads :
                   (act'.t = t /\ Len(ret'[t]) > Len(ret[t]) /\ OpOf(t) \in {"wait", "twait"}) =>
                     (ret'[t][Len(ret'[t])] <=> (\E i \in 1..Len(hist[t]) :
                          hist[t][i][1] = "ws" /\ hist[t][i][2] = "acq" /\ hist[t][i][3]))]_vars
(* bookkeeping consistency: outside notify*, sleeping - woken = announced and not yet
   acknowledged wait() calls; when nothing at all is in progress everything is zero-balanced *)
NoNotifier == \A t \in Threads : ~ONotifying(t)
Consistent == NoNotifier => sl - wk = Cardinality({t \in Threads : Announced(t) /\ ~Acked(t)})
QuietBalanced == (\A t \in Threads : ~InCall(t)) => (sl = wk /\ ws = 0 /\ lock = 0)
(* no window for a lost wake-up: a thread about to sleep on the wait semaphore announced itself
   (sleeping_count) *before* it gave the lock up -- a notifier that gets the lock in between
   must find it counted *)
AnnounceBeforeUnlock == \A t \in Threads :
    (pend[t][1] = "ws" /\ pend[t][2] = "acq") =>
        \E i, j \in 1..Len(hist[t]) : /\ i < j
                                       /\ hist[t][i][1] = "sl" /\ hist[t][i][2] = "rel"
                                       /\ hist[t][j][1] = "lock" /\ hist[t][j][2] = "rel"
(* Event: is_set / wait report the flag as it is at that moment; set/clear are atomic *)
EventReportsFlag == [][\A t \in Threads :
      (act'.t = t /\ Len(ret'[t]) > Len(ret[t]) /\ OpOf(t) \in {"is_set", "ewait", "etwait"})
         => (ret'[t][Len(ret'[t])] <=> (flag = 1))]_vars
FlagOnlyUnderLock == [][flag' # flag => lock # 0 /\ act'.t = lock]_vars

Proj == [prog |-> prog, hist |-> hist, pend |-> pend, lock |-> lock, sl |-> sl, wk |-> wk, ws |-> ws,
         flag |-> flag, ret |-> ret, err |-> err]
EmitEdge == PrintT(ToJson([from |-> Proj, act |-> act', to |-> Proj', lvl |-> TLCGet("level")]))
EmitInit == TLCGet("level") > 1 \/ PrintT(ToJson([init |-> Proj]))
=============================================================================
