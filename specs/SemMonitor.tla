---------------------------- MODULE SemMonitor ----------------------------
(* Layer-2 monitor: walks observed state sequences of the real semaphore and  *)
(* evaluates Sem's own property formulas on them.                             *)
EXTENDS Sem, IOUtils
VARIABLES tid, l
Obs == JsonDeserialize(IOEnv.OBS_FILE)
mvars == <<vars, tid, l>>
MonInit == /\ tid \in 1..Len(Obs) /\ l = 1
           /\ value = Obs[tid][1].state.value /\ bound = Obs[tid][1].state.bound
           /\ pend = Obs[tid][1].state.pend /\ clr = Obs[tid][1].state.clr /\ rel = Obs[tid][1].state.rel
           /\ act = Obs[tid][1].act
MonNext == /\ l < Len(Obs[tid]) /\ l' = l + 1 /\ tid' = tid
           /\ value' = Obs[tid][l + 1].state.value /\ bound' = Obs[tid][l + 1].state.bound
           /\ pend' = Obs[tid][l + 1].state.pend /\ clr' = Obs[tid][l + 1].state.clr /\ rel' = Obs[tid][l + 1].state.rel
           /\ act' = Obs[tid][l + 1].act
=============================================================================
