--------------------------- MODULE WorkerMonitor ---------------------------
EXTENDS Worker, IOUtils
VARIABLES tid, l
Obs == JsonDeserialize(IOEnv.OBS_FILE)
ToSet(s) == {s[i] : i \in 1..Len(s)}
MonInit == /\ tid \in 1..Len(Obs) /\ l = 1
           /\ LET o == Obs[tid][1].state IN
              /\ pc = o.pc /\ cur = o.cur /\ completed = o.completed /\ inq = o.inq /\ fed = o.fed
              /\ synq = o.synq /\ out = o.out /\ rd = o.rd /\ counter = o.counter
              /\ sleeps = o.sleeps /\ code = o.code /\ ret = o.ret /\ status = o.status /\ onexit = o.onexit
              /\ executed = o.executed /\ cancelled = ToSet(o.cancelled) /\ nacked = ToSet(o.nacked)
              /\ termreq = o.termreq /\ now = o.now /\ act = Obs[tid][1].act
MonNext == /\ l < Len(Obs[tid]) /\ l' = l + 1 /\ tid' = tid
           /\ LET o == Obs[tid][l + 1].state IN
              /\ pc' = o.pc /\ cur' = o.cur /\ completed' = o.completed /\ inq' = o.inq
              /\ fed' = o.fed
              /\ synq' = o.synq /\ out' = o.out /\ rd' = o.rd /\ counter' = o.counter
              /\ sleeps' = o.sleeps /\ code' = o.code /\ ret' = o.ret /\ status' = o.status /\ onexit' = o.onexit
              /\ executed' = o.executed
              /\ cancelled' = ToSet(o.cancelled)
              /\ nacked' = ToSet(o.nacked)
              /\ termreq' = o.termreq /\ now' = o.now /\ act' = Obs[tid][l + 1].act
=============================================================================
