------------------------------- MODULE Pool -------------------------------
(* billiard.pool.Pool -- parent side at message granularity (the parent of a       *)
(* threads=False pool is a single-threaded state machine; each action below is one  *)
(* call the event loop makes), workers and the kernel as environment.              *)
(*                                                                                   *)
(* Written to be bound: the bodies of Maintain / Scan / RH_* are transcriptions of  *)
(* _join_exited_workers + _repopulate_pool, handle_timeouts, on_ack / on_ready, in  *)
(* the iteration order the code uses, quirks included.  Where the pinned code       *)
(* deviates from what a property demands the deviation is guarded by a Dev* flag.   *)
EXTENDS Integers, Sequences, FiniteSets, TLC, Json

CONSTANTS
    NJobs,        \* jobs are numbered 1..NJobs in submission order
    Procs,        \* configured pool size at start
    MaxPid,       \* worker pids are 1..MaxPid, allocated in order
    MaxTime,      \* clock runs 0..MaxTime
    PoolSoft, PoolHard,   \* pool-level limits, 0 = none
    JobLimits,    \* set of <<soft, hard>> a submission may carry, 0 = not given
    Grace,        \* lost_worker_timeout (ticks)
    Quota,        \* maxtasksperchild, 0 = none
    PutLocks,     \* BOOLEAN: apply_async waits for a slot
    MaxR, MaxT,   \* restart budget: MaxR = 0 means unlimited
    Statuses,     \* exit statuses a dying worker may report
    Results,      \* subset of {"ok", "err"}: how a task may end
    MaxDup,       \* how many duplicate READY messages the environment may inject
    UserCalls,    \* subset of {"Discard", "TerminateJob", "Close", "Grow", "Shrink"}
    Periodic,     \* BOOLEAN: a Maintain and a Scan happen at least once per tick
    DevRemark,    \* pinned code (F12, fixed): every later reap re-marks a lost job (time restarts, status 0)
    TolLateReadySlot, \* known finding F15 (see SlotsConserved)
    TolLateAckStatus, \* known finding F13: loss attributed in a later reap than the owner's own reports status 0
    FineScan,     \* BOOLEAN: a time-limit scan is ScanBegin + one ScanVisit per job of its snapshot,
                  \* other parent activity (result messages, supervision, submissions) may come between
    DevSoftNoReady, \* pinned code (F10, fixed): on_soft_timeout does not re-check that the job is unresolved
    DevShrinkSame, \* pinned code (F14, fixed): shrink() may pick a worker that is already being shrunk
    HookPause,      \* TRUE: grow() / shrink() park in their user hook (on_grow / on_shrink) until HookReturn
    DevNoCreditLate \* pinned code: a READY for a job no longer cached is not credited to the worker

EX_OK == 0
EX_RECYCLE == 155
None == <<>>                     \* Python None for optional scalars: <<>> or <<v>>
Some(v) == <<v>>
Val(o) == o[1]
Min(a, b) == IF a < b THEN a ELSE b

VARIABLES
    hook,        \* "none" | "grow" | "shrink": a resize call is parked in its user hook (on_grow / on_shrink)
    pstate,      \* "RUN" | "CLOSE"
    nsub,        \* jobs submitted so far
    job,         \* [1..NJobs -> job record], meaningful for j <= nsub
    pool,        \* sequence of [pid, idx, cnt, ctrl, jterm]: Pool._pool in list order
    procs,       \* Pool._processes
    nextpid,
    sem,         \* <<value, bound>> of the slot semaphore
    rs,          \* restart_state: [R, T] with T = None | Some(t)
    dirty,       \* set of jobs already given their soft signal (scan memory)
    inq,         \* task pipe: sequence of job numbers
    outq,        \* result pipe: sequence of messages
    w,           \* [1..MaxPid -> worker record] (environment)
    sigs,        \* signals sent by the parent, in order: <<pid, name>>
    now,
    ndup,
    scanning, snap, \* FineScan: a scan is in progress; jobs of its snapshot still to be visited
    supd, scand, \* bookkeeping for Periodic
    raised,      \* Maintain raised RestartFreqExceeded
    act

vars == <<hook, pstate, nsub, job, pool, procs, nextpid, sem, rs, dirty, inq, outq, w,
          sigs, now, ndup, supd, scand, raised, scanning, snap, act>>
View == <<hook, pstate, nsub, job, pool, procs, nextpid, sem, rs, dirty, inq, outq, w,
          sigs, now, ndup, supd, scand, raised, scanning, snap>>

Jobs == 1..NJobs
Pids == 1..MaxPid

NoJob == [sub |-> FALSE, soft |-> 0, hard |-> 0, acc |-> FALSE, owner |-> 0, tacc |-> None,
          ready |-> FALSE, out |-> "none", oarg |-> 0, lost |-> None,
          cb |-> 0, ecb |-> 0, acb |-> 0, tsoft |-> 0, thard |-> 0, tset |-> 0, tcancel |-> 0,
          tbad |-> 0,         \* timeout callbacks told the wrong kind / limit (always 0 here)
          lateack |-> FALSE,  \* observation: its ACK was processed when the sender had already been reaped
          rel |-> FALSE,      \* observation: a result message for it gave its slot back
          late |-> FALSE,     \* observation: a result message for it was ignored while ~rel
          incache |-> FALSE]

NoWorker == [pc |-> "none", j |-> 0, nd |-> 0, ex |-> None, term |-> FALSE]

NewProc(pid, idx) == [pid |-> pid, idx |-> idx, cnt |-> 0, ctrl |-> FALSE, jterm |-> FALSE]

Init ==
    /\ hook = "none"
    /\ pstate = "RUN" /\ nsub = 0
    /\ job = [j \in Jobs |-> NoJob]
    /\ pool = [i \in 1..Procs |-> NewProc(i, i - 1)]
    /\ procs = Procs /\ nextpid = Procs + 1
    /\ sem = <<Procs, Procs>>
    /\ rs = [R |-> 0, T |-> None]
    /\ dirty = {}
    /\ inq = <<>> /\ outq = <<>>
    /\ w = [p \in Pids |-> IF p <= Procs THEN [NoWorker EXCEPT !.pc = "idle"] ELSE NoWorker]
    /\ sigs = <<>> /\ now = 0 /\ ndup = 0 /\ supd = FALSE /\ scand = FALSE
    /\ raised = FALSE /\ scanning = FALSE /\ snap = <<>>
    /\ act = [name |-> "Init"]

(* ------------------------------------------------------------------------- *)
(* helpers                                                                   *)
PoolPids(pl) == {pl[i].pid : i \in 1..Len(pl)}
IdxOf(pl, pid) == CHOOSE i \in 1..Len(pl) : pl[i].pid = pid
RelVal(s) == IF s[1] < s[2] THEN <<s[1] + 1, s[2]>> ELSE s
Exited(p) == w[p].ex # None
EffSoft(j) == job[j].soft       \* apply_async stores `soft_timeout or pool.soft_timeout`
EffHard(j) == job[j].hard
Cached == {j \in Jobs : job[j].incache}

(* ApplyResult._set(obj): no first-writer-wins guard on the pinned tree *)
SetJob(jr, out, oarg) ==
    [jr EXCEPT !.ready = TRUE, !.out = out, !.oarg = oarg,
               !.incache = IF jr.acc THEN FALSE ELSE jr.incache,
               !.tcancel = jr.tcancel + 1,
               !.cb = IF out = "ok" THEN jr.cb + 1 ELSE jr.cb,
               !.ecb = IF out # "ok" THEN jr.ecb + 1 ELSE jr.ecb]

(* ------------------------------------------------------------------------- *)
(* user calls                                                                *)
Submit(lim) ==
    /\ hook = "none" /\ pstate = "RUN" /\ nsub < NJobs
    /\ IF PutLocks THEN sem[1] > 0 /\ sem' = <<sem[1] - 1, sem[2]>> ELSE UNCHANGED sem
    /\ LET j == nsub + 1
           s == IF lim[1] # 0 THEN lim[1] ELSE PoolSoft
           h == IF lim[2] # 0 THEN lim[2] ELSE PoolHard
       IN /\ nsub' = j
          /\ job' = [job EXCEPT ![j] = [NoJob EXCEPT !.sub = TRUE, !.soft = s, !.hard = h,
                                                   !.incache = TRUE]]
          /\ inq' = Append(inq, j)
          /\ act' = [name |-> "Submit", j |-> j, soft |-> lim[1], hard |-> lim[2]]
    /\ UNCHANGED <<hook, pstate, pool, procs, nextpid, rs, dirty, outq, w, sigs, now, ndup, supd, scand, raised, scanning, snap>>

SubmitRefused ==   \* apply_async on a closed pool returns None and touches nothing
    /\ hook = "none" /\ pstate # "RUN" /\ nsub < NJobs
    /\ act' = [name |-> "SubmitRefused"]
    /\ UNCHANGED <<hook, pstate, nsub, job, pool, procs, nextpid, sem, rs, dirty, inq, outq, w,
                   sigs, now, ndup, supd, scand, raised, scanning, snap>>

Discard(j) ==
    /\ hook = "none" /\ "Discard" \in UserCalls /\ j <= nsub /\ job[j].incache
    /\ job' = [job EXCEPT ![j].incache = FALSE]
    /\ act' = [name |-> "Discard", j |-> j]
    /\ UNCHANGED <<hook, pstate, nsub, pool, procs, nextpid, sem, rs, dirty, inq, outq, w, sigs,
                   now, ndup, supd, scand, raised, scanning, snap>>

TerminateJob(p) ==   \* Pool.terminate_job(pid): TERM + mark the process
    /\ hook = "none" /\ "TerminateJob" \in UserCalls
    /\ p \in PoolPids(pool) /\ ~Exited(p) /\ ~w[p].term
    /\ w[p].pc = "run"
    /\ LET i == IdxOf(pool, p) IN
         pool' = [pool EXCEPT ![i].ctrl = TRUE, ![i].jterm = TRUE]
    /\ sigs' = Append(sigs, <<p, "TERM">>)
    /\ w' = [w EXCEPT ![p].term = TRUE]
    /\ act' = [name |-> "TerminateJob", pid |-> p]
    /\ UNCHANGED <<hook, pstate, nsub, job, procs, nextpid, sem, rs, dirty, inq, outq, now, ndup,
                   supd, scand, raised, scanning, snap>>

Close ==
    /\ hook = "none" /\ "Close" \in UserCalls /\ pstate = "RUN"
    /\ pstate' = "CLOSE"
    /\ sem' = <<IF sem[1] < sem[2] THEN sem[2] ELSE sem[1], sem[2]>>     \* putlock.clear()
    /\ act' = [name |-> "Close"]
    /\ UNCHANGED <<hook, nsub, job, pool, procs, nextpid, rs, dirty, inq, outq, w, sigs, now, ndup,
                   supd, scand, raised, scanning, snap>>

Grow ==
    /\ "Grow" \in UserCalls /\ hook = "none" /\ procs < Procs + 1 /\ nextpid <= MaxPid
    /\ procs' = procs + 1
    /\ sem' = <<sem[1] + 1, sem[2] + 1>>
    /\ act' = [name |-> "Grow"]
    /\ hook' = IF HookPause THEN "grow" ELSE "none"     \* on_grow(n) runs last
    /\ UNCHANGED <<pstate, nsub, job, pool, nextpid, rs, dirty, inq, outq, w, sigs, now, ndup,
                   supd, scand, raised, scanning, snap>>

(* shrink(1): first worker (list order) whose pid owns no cached job; needs a free  *)
(* slot or the call blocks (not modelled: enabled only when it would not block)     *)
Inactive(pl) == {i \in 1..Len(pl) : (\A j \in Cached : job[j].owner # pl[i].pid)
                                     /\ (DevShrinkSame \/ ~pl[i].ctrl)}
Shrink ==
    /\ "Shrink" \in UserCalls /\ hook = "none" /\ procs > 1 /\ Inactive(pool) # {} /\ sem[1] > 0
    /\ LET i == CHOOSE k \in Inactive(pool) : \A k2 \in Inactive(pool) : k <= k2
           p == pool[i].pid
       IN /\ procs' = procs - 1
          /\ sem' = <<sem[1] - 1, sem[2] - 1>>
          /\ pool' = [pool EXCEPT ![i].ctrl = TRUE]      \* terminate_controlled()
          /\ IF Exited(p) THEN UNCHANGED <<sigs, w>>
                          ELSE /\ sigs' = Append(sigs, <<p, "TERM">>)
                               /\ w' = [w EXCEPT ![p].term = TRUE]
    /\ act' = [name |-> "Shrink"]
    /\ hook' = IF HookPause THEN "shrink" ELSE "none"   \* on_shrink(1) runs last
    /\ UNCHANGED <<pstate, nsub, job, nextpid, rs, dirty, inq, outq, now, ndup, supd, scand, raised, scanning, snap>>

(* the user's on_grow / on_shrink hook returns: until then the resizing thread is inside
   the call and supervision, result handling and the workers go on around it *)
HookReturn ==
    /\ hook # "none" /\ hook' = "none"
    /\ act' = [name |-> "HookReturn"]
    /\ UNCHANGED <<pstate, nsub, job, pool, procs, nextpid, sem, rs, dirty, inq, outq, w,
                   sigs, now, ndup, supd, scand, raised, scanning, snap>>

(* ------------------------------------------------------------------------- *)
(* environment: workers                                                      *)
W_Accept(p) ==    \* take the next task from the pipe and announce acceptance
    /\ w[p].pc = "idle" /\ ~Exited(p) /\ ~w[p].term
    /\ inq # <<>>
    /\ LET j == Head(inq) IN
        /\ inq' = Tail(inq)
        /\ w' = [w EXCEPT ![p].pc = "run", ![p].j = j]
        /\ outq' = Append(outq, [t |-> "ACK", j |-> j, pid |-> p, time |-> now])
        /\ act' = [name |-> "W_Accept", pid |-> p, j |-> j]
    /\ UNCHANGED <<hook, pstate, nsub, job, pool, procs, nextpid, sem, rs, dirty, sigs, now, ndup,
                   supd, scand, raised, scanning, snap>>

W_Finish(p, res) ==  \* the task returns / raises: one READY; then next job or quota wait
    /\ w[p].pc = "run" /\ ~Exited(p)
    /\ LET nd == w[p].nd + 1 IN
        /\ w' = [w EXCEPT ![p].pc = IF Quota # 0 /\ nd >= Quota THEN "quota" ELSE "idle",
                          ![p].nd = nd, ![p].j = 0]
        /\ outq' = Append(outq, [t |-> "READY", j |-> w[p].j, pid |-> p, res |-> res])
    /\ act' = [name |-> "W_Finish", pid |-> p, res |-> res]
    /\ UNCHANGED <<hook, pstate, nsub, job, pool, procs, nextpid, sem, rs, dirty, inq, sigs, now, ndup,
                   supd, scand, raised, scanning, snap>>

Counter(p) == IF p \in PoolPids(pool) THEN pool[IdxOf(pool, p)].cnt ELSE 0

W_QuotaExit(p) ==  \* all results consumed by the parent: exit with the recycle status
    /\ w[p].pc = "quota" /\ ~Exited(p)
    /\ Counter(p) >= w[p].nd
    /\ w' = [w EXCEPT ![p].pc = "exited", ![p].ex = Some(EX_RECYCLE)]
    /\ act' = [name |-> "W_QuotaExit", pid |-> p]
    /\ UNCHANGED <<hook, pstate, nsub, job, pool, procs, nextpid, sem, rs, dirty, inq, outq, sigs, now,
                   ndup, supd, scand, raised, scanning, snap>>

W_Die(p, st) ==    \* dies while running task code or between jobs
    /\ w[p].pc \in {"run", "idle", "quota"} /\ ~Exited(p)
    /\ st \in Statuses
    /\ w' = [w EXCEPT ![p].pc = "exited", ![p].ex = Some(st)]
    /\ act' = [name |-> "W_Die", pid |-> p, st |-> st]
    /\ UNCHANGED <<hook, pstate, nsub, job, pool, procs, nextpid, sem, rs, dirty, inq, outq, sigs, now,
                   ndup, supd, scand, raised, scanning, snap>>

W_TermExit(p) ==   \* honours a termination request
    /\ w[p].term /\ ~Exited(p) /\ w[p].pc # "none"
    /\ w' = [w EXCEPT ![p].pc = "exited", ![p].ex = Some(-15)]
    /\ act' = [name |-> "W_TermExit", pid |-> p]
    /\ UNCHANGED <<hook, pstate, nsub, job, pool, procs, nextpid, sem, rs, dirty, inq, outq, sigs, now,
                   ndup, supd, scand, raised, scanning, snap>>

DupReady ==        \* a duplicate of a result message that was already delivered once
    /\ ndup < MaxDup
    /\ \E j \in 1..nsub, res \in Results :
         /\ job[j].owner # 0 /\ job[j].ready
         /\ outq' = Append(outq, [t |-> "READY", j |-> j, pid |-> job[j].owner, res |-> res])
         /\ act' = [name |-> "DupReady", j |-> j, res |-> res]
    /\ ndup' = ndup + 1
    /\ UNCHANGED <<hook, pstate, nsub, job, pool, procs, nextpid, sem, rs, dirty, inq, w, sigs, now,
                   supd, scand, raised, scanning, snap>>

(* ------------------------------------------------------------------------- *)
(* result handler: consume exactly one message                                *)
RH_Ack ==
    /\ outq # <<>> /\ Head(outq).t = "ACK"
    /\ LET m == Head(outq)
           j == m.j
       IN /\ outq' = Tail(outq)
          /\ rs' = [rs EXCEPT !.R = 0]
          /\ IF job[j].incache
               THEN job' = [job EXCEPT ![j].acc = TRUE, ![j].tacc = Some(m.time),
                                       ![j].owner = m.pid,
                                       ![j].lateack = (m.pid \notin PoolPids(pool)),
                                       ![j].incache = ~job[j].ready,
                                       ![j].acb = job[j].acb + 1,
                                       ![j].tset = job[j].tset + 1]
               ELSE UNCHANGED job
          /\ act' = [name |-> "RH_Ack", j |-> j, pid |-> m.pid]
    /\ UNCHANGED <<hook, pstate, nsub, pool, procs, nextpid, sem, dirty, inq, w, sigs, now, ndup,
                   supd, scand, raised, scanning, snap>>

Credit(pl, p) == IF p # 0 /\ p \in PoolPids(pl)
                   THEN [pl EXCEPT ![IdxOf(pl, p)].cnt = pl[IdxOf(pl, p)].cnt + 1]
                   ELSE pl

RH_Ready ==
    /\ outq # <<>> /\ Head(outq).t = "READY"
    /\ LET m == Head(outq)
           j == m.j
       IN /\ outq' = Tail(outq)
          /\ IF job[j].incache
               THEN /\ pool' = Credit(pool, job[j].owner)
                    /\ sem' = IF ~job[j].ready THEN RelVal(sem) ELSE sem
                    /\ job' = [job EXCEPT ![j] = [SetJob(job[j], m.res, 0) EXCEPT
                                                   !.rel = job[j].rel \/ ~job[j].ready]]
               ELSE /\ pool' = IF DevNoCreditLate THEN pool ELSE Credit(pool, m.pid)
                    /\ job' = [job EXCEPT ![j].late = job[j].late \/ ~job[j].rel]
                    /\ UNCHANGED sem
          /\ act' = [name |-> "RH_Ready", j |-> j, pid |-> m.pid, res |-> m.res]
    /\ UNCHANGED <<hook, pstate, nsub, procs, nextpid, rs, dirty, inq, w, sigs, now, ndup, supd, scand, raised, scanning, snap>>

(* ------------------------------------------------------------------------- *)
(* supervision: Pool.maintain_pool()                                         *)

(* phase 1: jobs whose lost mark is older than their grace period            *)
MarkLost(jb) ==
    [j \in Jobs |->
        IF jb[j].incache /\ ~jb[j].ready /\ jb[j].lost # None
           /\ now - jb[j].lost[1] > Grace
          THEN [SetJob(jb[j], "lost", jb[j].lost[2]) EXCEPT !.lost = None]   \* reported once (F25 repair)
          ELSE jb[j]]

(* phase 2: reap.  Indices of exited workers; the code walks the list backwards *)
ExitedIdx(pl) == {i \in 1..Len(pl) : Exited(pl[i].pid)}
Remaining(pl) == SelectSeq(pl, LAMBDA r : ~Exited(r.pid))
(* exit codes in the order the code collects them: reversed list order *)
RECURSIVE CodesFrom(_, _)
CodesFrom(pl, i) == IF i = 0 THEN <<>>
                    ELSE IF Exited(pl[i].pid)
                           THEN <<Val(w[pl[i].pid].ex)>> \o CodesFrom(pl, i - 1)
                           ELSE CodesFrom(pl, i - 1)
ExitCodes(pl) == CodesFrom(pl, Len(pl))

(* phase 2b: attribute the loss.  cleaned = pids reaped now; all = pids still in pool *)
Attribute(jb, pl) ==
    LET cleaned == {pl[i].pid : i \in ExitedIdx(pl)}
        alive == PoolPids(Remaining(pl))
    IN [j \in Jobs |->
         IF ~jb[j].incache THEN jb[j]
         ELSE LET o == jb[j].owner
                  gone == o # 0 /\ (o \in cleaned \/ o \notin alive)
              IN IF gone /\ ~jb[j].ready
                   THEN LET code == IF o \in cleaned THEN Val(w[o].ex) ELSE 0
                            jt == o \in cleaned /\ pl[IdxOf(pl, o)].jterm
                        IN IF jt THEN SetJob(jb[j], "terminated", code)
                           ELSE IF DevRemark \/ jb[j].lost = None
                                  THEN [jb[j] EXCEPT !.lost = <<now, code>>]
                                  ELSE jb[j]
                   ELSE jb[j]]

(* restart_state.step(now) -> <<rs', raised>> *)
Step(r) ==
    IF r.T # None /\ now - Val(r.T) >= MaxT
      THEN <<[R |-> 1, T |-> Some(now)], FALSE>>
    ELSE IF MaxR # 0 /\ r.R >= MaxR /\ r.R # 0
      THEN <<[R |-> 0, T |-> r.T], TRUE>>
    ELSE <<[R |-> r.R + 1, T |-> IF r.T = None THEN Some(now) ELSE r.T], FALSE>>

AvailIdx(pl) == CHOOSE i \in 0..MaxPid : i \notin {pl[k].idx : k \in 1..Len(pl)}
                                         /\ \A i2 \in 0..(i - 1) : i2 \in {pl[k].idx : k \in 1..Len(pl)}

(* _repopulate_pool(codes): state = <<pool, rs, nextpid, raised>> *)
RECURSIVE Repop(_, _, _)
Repop(st, codes, i) ==
    LET pl == st[1]  r == st[2]  np == st[3]
        need == procs - Len(pl)
    IN IF need <= 0 \/ st[4] \/ np > MaxPid THEN st
       ELSE LET mustStep == IF codes = <<>> THEN FALSE
                            ELSE IF i <= Len(codes) THEN codes[i] \notin {EX_OK, EX_RECYCLE}
                            ELSE TRUE              \* IndexError branch
                sr == IF mustStep THEN Step(r) ELSE <<r, FALSE>>
            IN IF sr[2] THEN <<pl, sr[1], np, TRUE>>
               ELSE Repop(<<Append(pl, NewProc(np, AvailIdx(pl))), sr[1], np + 1, FALSE>>,
                          codes, i + 1)

RECURSIVE RelN(_, _)
RelN(s, n) == IF n = 0 THEN s ELSE RelN(RelVal(s), n - 1)

Maintain ==
    /\ pstate = "RUN" /\ ~raised
    /\ LET jb1 == MarkLost(job)
           codes == ExitCodes(pool)
           jb2 == IF codes # <<>> THEN
                     [j \in Jobs |-> Attribute(jb1, pool)[j]]
                  ELSE jb1
           pl1 == Remaining(pool)
           st == Repop(<<pl1, rs, nextpid, FALSE>>, codes, 1)
       IN /\ procs - Len(pl1) <= MaxPid + 1 - nextpid      \* enough pids left to model it
          /\ job' = jb2
          /\ pool' = st[1] /\ rs' = st[2] /\ nextpid' = st[3] /\ raised' = st[4]
          /\ w' = [p \in Pids |-> IF p >= nextpid /\ p < st[3]
                                   THEN [NoWorker EXCEPT !.pc = "idle"] ELSE w[p]]
          /\ IF st[4]
               THEN /\ pstate' = "CLOSE"                        \* maintain_pool: close(); join(); raise
                    /\ sem' = <<IF sem[1] < sem[2] THEN sem[2] ELSE sem[1], sem[2]>>
               ELSE /\ pstate' = pstate
                    /\ sem' = RelN(sem, Len(codes))
          /\ act' = [name |-> "Maintain", raised |-> st[4]]
    /\ supd' = TRUE
    /\ UNCHANGED <<hook, nsub, procs, dirty, inq, outq, sigs, now, ndup, scand, scanning, snap>>

(* ------------------------------------------------------------------------- *)
(* time-limit scan: one pass of TimeoutHandler.handle_timeouts                *)
TimedOut(start, limit) == start # None /\ limit # 0 /\ now >= Val(start) + limit

HardDue(j) == job[j].incache /\ TimedOut(job[j].tacc, EffHard(j))
SoftDue(j) == job[j].incache /\ ~HardDue(j) /\ j \notin dirty /\ TimedOut(job[j].tacc, EffSoft(j))

(* victims of this pass: owners (still in the pool) of hard-due, not ready jobs *)
HardHit == {j \in Jobs : HardDue(j) /\ ~job[j].ready}
Victims == {job[j].owner : j \in {k \in HardHit : job[k].owner \in PoolPids(pool)
                                                     /\ ~Exited(job[k].owner)}}

RECURSIVE ScanSigs(_, _, _)
ScanSigs(j, lingers, acc) ==   \* signals in cache (= submission) order
    IF j > NJobs THEN acc
    ELSE IF j \in HardHit /\ job[j].owner \in Victims
           THEN ScanSigs(j + 1, lingers,
                         IF job[j].owner \in lingers
                           THEN acc \o <<<<job[j].owner, "TERM">>, <<job[j].owner, "KILL">>>>
                           ELSE Append(acc, <<job[j].owner, "TERM">>))
    ELSE IF SoftDue(j) /\ job[j].owner \in PoolPids(pool) /\ ~Exited(job[j].owner)
           THEN ScanSigs(j + 1, lingers, Append(acc, <<job[j].owner, "USR1">>))
    ELSE ScanSigs(j + 1, lingers, acc)

Scan(lingers) ==
    /\ ~FineScan
    /\ lingers \subseteq Victims
    /\ LET d0 == {j \in dirty : job[j].incache} IN
        /\ job' = [j \in Jobs |->
                     IF j \in HardHit
                       THEN [SetJob(job[j], "timelimit", EffHard(j)) EXCEPT !.thard = job[j].thard + 1]
                     ELSE IF SoftDue(j) /\ job[j].owner \in PoolPids(pool)
                       THEN [job[j] EXCEPT !.tsoft = job[j].tsoft + 1]
                     ELSE job[j]]
        /\ dirty' = d0 \cup {j \in Jobs : SoftDue(j)}
        /\ sigs' = ScanSigs(1, lingers, sigs)
        /\ w' = [p \in Pids |->
                   IF p \in Victims /\ ~Exited(p)
                     THEN [w[p] EXCEPT !.pc = "exited", !.term = TRUE,
                                       !.ex = Some(IF p \in lingers THEN -9 ELSE -15)]
                     ELSE w[p]]
        /\ act' = [name |-> "Scan", lingers |-> lingers]
    /\ scand' = TRUE
    /\ UNCHANGED <<hook, pstate, nsub, pool, procs, nextpid, sem, rs, inq, outq, now, ndup, supd, raised, scanning, snap>>


(* ---- the same scan, one visit at a time (FineScan) ----------------------------------- *)
RECURSIVE SeqOfJobs(_, _)
SeqOfJobs(S, j) == IF j > NJobs THEN <<>>
                   ELSE (IF j \in S THEN <<j>> ELSE <<>>) \o SeqOfJobs(S, j + 1)

ScanBegin ==      \* copy of the cache taken; memory of soft signals pruned to it
    /\ FineScan /\ ~scanning
    /\ snap' = SeqOfJobs(Cached, 1) /\ scanning' = (Cached # {})
    /\ dirty' = {j \in dirty : job[j].incache}
    /\ scand' = ((Cached = {}) \/ scand)
    /\ act' = [name |-> "ScanBegin"]
    /\ UNCHANGED <<hook, pstate, nsub, job, pool, procs, nextpid, sem, rs, inq, outq, w, sigs, now, ndup,
                   supd, raised>>

ScanVisit(linger) ==   \* the next job of the snapshot, judged by what it looks like *now*
    /\ FineScan /\ scanning /\ snap # <<>>
    /\ LET j == Head(snap)
           o == job[j].owner
           inpool == o \in PoolPids(pool)
           alive == inpool /\ ~Exited(o)
           hardDue == TimedOut(job[j].tacc, EffHard(j))
           softDue == ~hardDue /\ j \notin dirty /\ TimedOut(job[j].tacc, EffSoft(j))
           hardHit == hardDue /\ ~job[j].ready
           softHit == softDue /\ inpool /\ (DevSoftNoReady \/ ~job[j].ready)
       IN /\ (linger => (hardHit /\ alive))
          /\ job' = [job EXCEPT ![j] =
                        IF hardHit THEN [SetJob(job[j], "timelimit", EffHard(j)) EXCEPT !.thard = job[j].thard + 1]
                        ELSE IF softHit THEN [job[j] EXCEPT !.tsoft = job[j].tsoft + 1]
                        ELSE job[j]]
          /\ dirty' = IF softDue THEN dirty \cup {j} ELSE dirty
          /\ sigs' = IF hardHit /\ alive
                        THEN (IF linger THEN sigs \o <<<<o, "TERM">>, <<o, "KILL">>>> ELSE Append(sigs, <<o, "TERM">>))
                      ELSE IF softHit /\ alive THEN Append(sigs, <<o, "USR1">>)
                      ELSE sigs
          /\ w' = IF hardHit /\ alive
                     THEN [w EXCEPT ![o] = [w[o] EXCEPT !.pc = "exited", !.term = TRUE,
                                                       !.ex = Some(IF linger THEN -9 ELSE -15)]]
                     ELSE w
          /\ snap' = Tail(snap) /\ scanning' = (Tail(snap) # <<>>)
          /\ scand' = ((Tail(snap) = <<>>) \/ scand)
          /\ act' = [name |-> "ScanVisit", j |-> j, linger |-> linger]
    /\ UNCHANGED <<hook, pstate, nsub, pool, procs, nextpid, sem, rs, inq, outq, now, ndup, supd, raised>>

Tick ==
    /\ now < MaxTime
    /\ Periodic => (supd \/ pstate # "RUN" \/ raised) /\ scand /\ ~scanning /\ outq = <<>>
    /\ now' = now + 1
    /\ supd' = FALSE /\ scand' = FALSE
    /\ act' = [name |-> "Tick"]
    /\ UNCHANGED <<hook, pstate, nsub, job, pool, procs, nextpid, sem, rs, dirty, inq, outq, w, sigs,
                   ndup, raised, scanning, snap>>

Next ==
    \/ HookReturn
    \/ \E lim \in JobLimits : Submit(lim)
    \/ SubmitRefused
    \/ \E j \in Jobs : Discard(j)
    \/ \E p \in Pids : TerminateJob(p)
    \/ Close \/ Grow \/ Shrink
    \/ \E p \in Pids : W_Accept(p) \/ W_QuotaExit(p) \/ W_TermExit(p)
    \/ \E p \in Pids, r \in Results : W_Finish(p, r)
    \/ \E p \in Pids, st \in Statuses : W_Die(p, st)
    \/ DupReady
    \/ RH_Ack \/ RH_Ready
    \/ Maintain
    \/ \E L \in SUBSET Victims : Scan(L)
    \/ ScanBegin \/ (\E lg \in BOOLEAN : ScanVisit(lg))
    \/ Tick

Spec == Init /\ [][Next]_vars

(* ========================================================================= *)
(* Properties                                                                 *)

(* C01: an outcome never changes once observable; callbacks at most once *)
OutcomeStable == [][\A j \in Jobs : job[j].ready =>
                        job'[j].ready /\ job'[j].out = job[j].out /\ job'[j].oarg = job[j].oarg]_vars
CallbacksOnce == \A j \in Jobs :
                    /\ job[j].cb + job[j].ecb <= 1
                    /\ (job[j].cb = 1 => job[j].out = "ok")
                    /\ (job[j].ecb = 1 => job[j].out \notin {"none", "ok"})
ResolvedHasCallback == \A j \in Jobs : job[j].ready => job[j].cb + job[j].ecb = 1
(* own outcome: how each outcome may come about, as an action property *)
OwnOutcome == [][\A j \in Jobs : (~job[j].ready /\ job'[j].ready) =>
    \/ /\ job'[j].out \in {"ok", "err"}
       /\ act'.name = "RH_Ready" /\ act'.j = j /\ act'.res = job'[j].out
    \/ /\ job'[j].out = "lost" /\ act'.name = "Maintain"
       /\ job[j].owner # 0 /\ w[job[j].owner].ex # None
       /\ job[j].lost # None /\ job'[j].oarg = job[j].lost[2]
    \/ /\ job'[j].out = "timelimit" /\ act'.name \in {"Scan", "ScanVisit"}
       /\ job[j].hard # 0 /\ job[j].tacc # None /\ now >= Val(job[j].tacc) + job[j].hard
       /\ job'[j].oarg = job[j].hard
    \/ /\ job'[j].out = "terminated" /\ act'.name = "Maintain"
       /\ job[j].owner # 0 /\ \E k \in 1..Len(sigs) : sigs[k] = <<job[j].owner, "TERM">>]_vars
(* the job of a worker that was revoked with terminate_job() and is reaped while still owning it *)
(* ends as Terminated -- it is not put on the lost-worker path (and nobody else's job is)         *)
RevokedIsTerminated == [][\A j \in Jobs : (job[j].lost = None /\ job'[j].lost # None) =>
                            LET o == job[j].owner IN
                              ~(o \in PoolPids(pool) /\ pool[IdxOf(pool, o)].jterm)]_vars
(* late / duplicate messages for a resolved job change nothing about it *)
LateIgnored == [][\A j \in Jobs : ((job[j].ready /\ ~job[j].incache /\ act'.name \in {"RH_Ready", "RH_Ack"})
                        => (job'[j] = [job[j] EXCEPT !.late = job'[j].late]))]_vars
(* the cache holds exactly the jobs that are not yet both accepted and resolved *)
CacheExact == \A j \in 1..nsub : (job[j].incache /\ job[j].acc) => ~job[j].ready
AckBeforeResult == \A j \in Jobs : (job[j].cb + job[j].ecb > 0 /\ job[j].out \in {"ok", "err"})
                                        => job[j].acb >= 1 \/ ~job[j].acc

(* C04 *)
(* the worker a lost job is blamed on really exited while owning the unfinished job *)
LostOnlyIfReal == \A j \in Jobs : job[j].lost # None =>
                       /\ job[j].owner # 0 /\ w[job[j].owner].ex # None
(* the mark is set once, at detection, with the owner's real exit status *)
LostMarkRight == [][\A j \in Jobs : (job'[j].lost # job[j].lost) =>
                      LET o == job[j].owner IN
                       IF job'[j].lost = None       \* the mark is dropped exactly when the loss is reported
                         THEN act'.name = "Maintain" /\ now - job[j].lost[1] > Grace
                         ELSE
                        /\ job[j].lost = None
                        /\ o # 0 /\ w[o].ex # None
                        /\ job'[j].lost[1] = now
                        /\ \/ (o \in PoolPids(pool) /\ job'[j].lost[2] = Val(w[o].ex))
                           \/ (TolLateAckStatus /\ o \notin PoolPids(pool) /\ job'[j].lost[2] = 0)]_vars
(* no earlier than grace after detection *)
LostNotEarly == [][\A j \in Jobs : (job[j].out # "lost" /\ job'[j].out = "lost") =>
                       (job[j].lost # None /\ now - job[j].lost[1] > Grace)]_vars
(* every reap attributes the loss of every unfinished job whose worker is gone -- also of a job   *)
(* whose worker had been reaped before its ACK was read (F13: late and with status 0, not never) *)
ReapAttributes == [][(act'.name = "Maintain" /\ pstate = "RUN" /\ ~raised /\ ExitedIdx(pool) # {}) =>
    \A j \in Jobs : (job[j].incache /\ ~job[j].ready /\ job[j].owner # 0 /\ job[j].lost = None
                      /\ job[j].owner \notin PoolPids(Remaining(pool)))
                     => (job'[j].lost # None \/ job'[j].ready)]_vars
(* with periodic supervision: resolved by detection + Grace + 1 *)
LostNotLate == \A j \in Jobs : (Periodic /\ job[j].lost # None /\ ~job[j].ready /\ job[j].incache /\ pstate = "RUN" /\ ~raised)
                       => now - job[j].lost[1] <= Grace + 1

(* C05 / C06 *)
NoFalseTimeout == \A j \in Jobs : job[j].out = "timelimit" =>
                       job[j].hard # 0 /\ job[j].tacc # None /\ now >= Val(job[j].tacc) + job[j].hard
HardWithinScan == \A j \in Jobs : (Periodic /\ job[j].incache /\ ~job[j].ready /\ job[j].hard # 0
                                   /\ job[j].tacc # None) => now <= Val(job[j].tacc) + job[j].hard
VictimGone == [][\A j \in Jobs : (job[j].out # "timelimit" /\ job'[j].out = "timelimit"
                                   /\ job[j].owner \in PoolPids(pool))
                       => w'[job[j].owner].ex # None]_vars
(* delivery: a whole scan leaves no job behind that was due when it ran *)
HardDelivered == [][act'.name = "Scan" => \A j \in Jobs : j \in HardHit => job'[j].out = "timelimit"]_vars
SoftDelivered == [][act'.name = "Scan" => \A j \in Jobs :
                       (SoftDue(j) /\ j \notin HardHit /\ job[j].owner \in PoolPids(pool))
                           => job'[j].tsoft = job[j].tsoft + 1]_vars
(* a scan sets out to visit exactly the jobs that are in the table when it starts *)
SnapFresh == [][act'.name = "ScanBegin" => snap' = SeqOfJobs(Cached, 1)]_vars
SoftOnce == \A j \in Jobs : job[j].tsoft <= 1
SoftOnlyIfDue == [][\A j \in Jobs : job'[j].tsoft > job[j].tsoft =>
                       /\ job[j].soft # 0 /\ job[j].tacc # None /\ now >= Val(job[j].tacc) + job[j].soft
                       /\ job[j].incache /\ ~job[j].ready
                       /\ (job[j].hard = 0 \/ now < Val(job[j].tacc) + job[j].hard)]_vars
SoftSignalMatchesCallback ==
    [][Len(sigs') >= Len(sigs) /\
       Cardinality({k \in (Len(sigs) + 1)..Len(sigs') : sigs'[k][2] = "USR1"})
         <= Cardinality({j \in Jobs : job'[j].tsoft > job[j].tsoft})]_vars
(* the signal goes to the process that accepted that job (what the worker is doing by *)
(* the time it arrives is not knowable to the parent: its result may be in the pipe)   *)
SoftToRunner == [][\A k \in (Len(sigs) + 1)..Len(sigs') : sigs'[k][2] = "USR1" =>
                       \E j \in Jobs : /\ job'[j].tsoft > job[j].tsoft /\ job[j].owner = sigs'[k][1]
                                       /\ job[j].incache /\ ~job[j].ready]_vars
TimeoutCallbackOnce == \A j \in Jobs : job[j].thard <= 1 /\ (job[j].thard = 1 => job[j].out = "timelimit")
TimeoutCallbackArgs == \A j \in Jobs : job[j].tbad = 0
LimitPrecedence == TRUE   \* carried by Submit: job limit if given, else pool default (checked on replay)

(* C09 *)
(* after a supervision pass: at least the configured number of workers, and no more  *)
(* than that many that are not already on their way out (shrink / terminate_job)      *)
SizeAfterMaintain == [][(act'.name = "Maintain" /\ ~raised' /\ nextpid' <= MaxPid)
                            => /\ Len(pool') >= procs'
                               /\ Cardinality({i \in 1..Len(pool') : ~pool'[i].ctrl}) <= procs'
                               /\ \A i \in 1..Len(pool') : w[pool'[i].pid].ex = None]_vars
NeverAbove == Cardinality({i \in 1..Len(pool) : ~Exited(pool[i].pid) /\ ~w[pool[i].pid].term}) <= procs
DistinctIdx == \A a, b \in 1..Len(pool) : a # b => pool[a].idx # pool[b].idx /\ pool[a].pid # pool[b].pid
QuotaRespected == \A p \in Pids : Quota # 0 => w[p].nd <= Quota
(* with the parent keeping up (Periodic), a job is only ever *reported* lost if its   *)
(* owner exited while still holding it (no result sent): recycling / clean exits of  *)
(* workers that finished their work cause no failure                                   *)
LostOutcomeReal == \A j \in Jobs : (Periodic /\ job[j].out = "lost") =>
                       (job[j].owner # 0 /\ w[job[j].owner].ex # None /\ w[job[j].owner].j = j)

(* C10 (pool level) *)
SemBounded == 0 <= sem[1] /\ sem[1] <= sem[2]
Quiet == /\ outq = <<>> /\ inq = <<>>
         /\ \A p \in Pids : w[p].pc \in {"none", "idle", "exited"}
         /\ \A i \in 1..Len(pool) : ~Exited(pool[i].pid)
         /\ \A j \in 1..nsub : job[j].ready \/ ~job[j].incache
(* known finding F15 (TolLateReadySlot): the slot of a job whose result message arrives  *)
(* after the job left the cache (time limit, loss, discard) is given back by nobody      *)
Leaked == Cardinality({j \in 1..nsub : job[j].late /\ ~job[j].rel})
(* bounded liveness: when the environment is quiet (nothing in the pipes, every worker idle *)
(* or reaped) every accepted job is resolved, or is within its lost-worker grace period     *)
QuietEnv == /\ outq = <<>> /\ inq = <<>>
            /\ \A p \in Pids : w[p].pc \in {"none", "idle", "exited"}
            /\ \A i \in 1..Len(pool) : ~Exited(pool[i].pid)
QuietResolved == (QuietEnv /\ pstate = "RUN" /\ ~raised) =>
    \A j \in 1..nsub : \/ job[j].ready \/ ~job[j].incache
                        \/ job[j].lost # None          \* marked: resolved by a later supervision pass (LostNotLate)
                        \/ (TolLateAckStatus /\ job[j].lateack)
SlotsConserved == (PutLocks /\ Quiet /\ pstate = "RUN") =>
                      (sem[1] + (IF TolLateReadySlot THEN Leaked ELSE 0) >= sem[2])
InFlightBound == (PutLocks /\ pstate = "RUN" /\ \A p \in Pids : w[p].ex = None) =>
    Cardinality({j \in 1..nsub : ~job[j].ready}) <= sem[2]

(* C11 *)
RestartBudget == MaxR # 0 => rs.R <= MaxR
CleanExitsFree == [][(act'.name = "Maintain" /\
                      \A i \in 1..Len(pool) : Exited(pool[i].pid) => Val(w[pool[i].pid].ex) \in {EX_OK, EX_RECYCLE})
                        => (rs' = rs /\ ~raised')]_vars
NoForkOnRaise == [][(act'.name = "Maintain" /\ raised') => Len(pool') <= Len(pool)]_vars
AckResetsBudget == [][act'.name = "RH_Ack" => rs'.R = 0]_vars

(* C07 / C09: a result taken from the pipe for a job of the table is credited to the worker that  *)
(* ran it, whenever that worker was started -- so that it need not wait out its 30 s guard before *)
(* it may leave (quota, sentinel at close)                                                         *)
CreditOnReady == [][(act'.name = "RH_Ready" /\ job[act'.j].incache /\ job[act'.j].owner \in PoolPids(pool))
                      => LET p == job[act'.j].owner IN
                         /\ p \in PoolPids(pool')
                         /\ pool'[IdxOf(pool', p)].cnt = pool[IdxOf(pool, p)].cnt + 1]_vars

(* ========================================================================= *)
(* binding                                                                    *)
Proj == [hook |-> hook, scanning |-> scanning, snap |-> snap, pstate |-> pstate, nsub |-> nsub, job |-> [j \in 1..nsub |-> job[j]],
         pool |-> pool, procs |-> procs, sem |-> sem, rs |-> rs,
         dirty |-> dirty, inq |-> inq, outq |-> outq,
         w |-> [p \in 1..(nextpid - 1) |-> w[p]],
         sigs |-> sigs, now |-> now, raised |-> raised]
EmitEdge == PrintT(ToJson([from |-> Proj, act |-> act', to |-> Proj', lvl |-> TLCGet("level")]))
EmitInit == TLCGet("level") > 1 \/ PrintT(ToJson([init |-> Proj]))
=============================================================================
