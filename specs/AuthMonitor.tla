---------------------------- MODULE AuthMonitor ----------------------------
EXTENDS Auth, IOUtils
VARIABLES tid, l
Obs == JsonDeserialize(IOEnv.OBS_FILE)
MonInit == /\ tid \in 1..Len(Obs) /\ l = 1
           /\ LET o == Obs[tid][1].state IN
              /\ mode = o.mode /\ kl = o.kl /\ kc = o.kc /\ sess = o.sess /\ lpc = o.lpc /\ cpc = o.cpc
              /\ l2c = o.l2c /\ c2l = o.c2l /\ lclosed = o.lclosed /\ cclosed = o.cclosed
              /\ lres = o.lres /\ cres = o.cres /\ nchal = o.nchal /\ lchal = o.lchal
              /\ cchal = o.cchal /\ nh = o.nh /\ act = Obs[tid][1].act
MonNext == /\ l < Len(Obs[tid]) /\ l' = l + 1 /\ tid' = tid
           /\ LET o == Obs[tid][l + 1].state IN
              /\ mode' = o.mode /\ kl' = o.kl /\ kc' = o.kc /\ sess' = o.sess /\ lpc' = o.lpc
              /\ cpc' = o.cpc /\ l2c' = o.l2c /\ c2l' = o.c2l /\ lclosed' = o.lclosed
              /\ cclosed' = o.cclosed /\ lres' = o.lres /\ cres' = o.cres /\ nchal' = o.nchal
              /\ lchal' = o.lchal /\ cchal' = o.cchal /\ nh' = o.nh /\ act' = Obs[tid][l + 1].act
=============================================================================
