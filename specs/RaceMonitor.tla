---------------------------- MODULE RaceMonitor ----------------------------
EXTENDS Race, IOUtils
VARIABLES tid, l
Obs == JsonDeserialize(IOEnv.OBS_FILE)
St(t, k) == Obs[t][k].state
MonInit == /\ tid \in 1..Len(Obs) /\ l = 1
           /\ pc = [w \in Writers |-> St(tid, 1).pc[w]] /\ saw = [w \in Writers |-> St(tid, 1).saw[w]]
           /\ out = St(tid, 1).out /\ incache = St(tid, 1).incache /\ cb = St(tid, 1).cb
           /\ ecb = St(tid, 1).ecb /\ hist = St(tid, 1).hist /\ act = Obs[tid][1].act
MonNext == /\ l < Len(Obs[tid]) /\ l' = l + 1 /\ tid' = tid
           /\ pc' = [w \in Writers |-> St(tid, l + 1).pc[w]] /\ saw' = [w \in Writers |-> St(tid, l + 1).saw[w]]
           /\ out' = St(tid, l + 1).out /\ incache' = St(tid, l + 1).incache /\ cb' = St(tid, l + 1).cb
           /\ ecb' = St(tid, l + 1).ecb /\ hist' = St(tid, l + 1).hist /\ act' = Obs[tid][l + 1].act
=============================================================================
