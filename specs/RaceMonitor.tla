---------------------------- MODULE RaceMonitor ----------------------------
EXTENDS Race, IOUtils
VARIABLES tid, l
Obs == JsonDeserialize(IOEnv.OBS_FILE)
MonInit == /\ tid \in 1..Len(Obs) /\ l = 1
           /\ LET o == Obs[tid][1].state IN
              /\ pc = [w \in Writers |-> o.pc[w]] /\ saw = [w \in Writers |-> o.saw[w]]
              /\ look = [w \in Writers |-> o.look[w]]
              /\ out = o.out /\ incache = o.incache /\ cb = o.cb /\ ecb = o.ecb /\ hist = o.hist
              /\ tcancel = o.tcancel /\ mutex = o.mutex /\ softsig = o.softsig /\ tcb = o.tcb /\ act = Obs[tid][1].act
MonNext == /\ l < Len(Obs[tid]) /\ l' = l + 1 /\ tid' = tid
           /\ LET o == Obs[tid][l + 1].state IN
              /\ pc' = [w \in Writers |-> o.pc[w]] /\ saw' = [w \in Writers |-> o.saw[w]]
              /\ look' = [w \in Writers |-> o.look[w]]
              /\ out' = o.out /\ incache' = o.incache /\ cb' = o.cb /\ ecb' = o.ecb /\ hist' = o.hist
              /\ tcancel' = o.tcancel /\ mutex' = o.mutex /\ softsig' = o.softsig /\ tcb' = o.tcb /\ act' = Obs[tid][l + 1].act
=============================================================================
