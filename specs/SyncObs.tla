------------------------------ MODULE SyncObs ------------------------------
(* Observations of billiard's Lock / Condition / BoundedSemaphore / Event used by real     *)
(* processes (binding B for C17): one record per scenario.                                  *)
EXTENDS Integers, Sequences, TLC, Json, IOUtils
VARIABLES tid
Obs == JsonDeserialize(IOEnv.OBS_FILE)
o == Obs[tid]
MonInit == tid \in 1..Len(Obs)
MonNext == UNCHANGED tid
(* nobody is left waiting for good: no lost wake-up, no semaphore unit lost *)
NobodyStuck == o.stuck = 0
(* producer / consumers on a condition: every item produced is consumed exactly once, the
   condition's lock excludes, an untimed wait never reports a timeout *)
CondConserves == o.kind = "cond" => (o.consumed = o.produced /\ o.left = 0)
CondLockExcludes == o.kind = "cond" => o.mutex_broken = 0
UntimedNeverTimesOut == (o.kind = "cond" /\ ~o.timed) => o.timeouts = 0
(* BoundedSemaphore(k): never more than k holders; a release beyond the bound is refused; all units
   are back at the end *)
SemBound == o.kind = "sem" => (o.peak <= o.bound /\ o.over_released = 0 /\ o.free_at_end = o.bound)
(* Event: nobody passes wait() before set(); set() releases every waiter; is_set / clear agree *)
EventExact == o.kind = "event" =>
    (o.early = 0 /\ o.released = o.waiters /\ o.is_set_after_set /\ ~o.is_set_after_clear /\ ~o.timed_wait_on_clear)
=============================================================================
