---------------------------- MODULE MgrMonitor ----------------------------
EXTENDS Mgr, IOUtils
VARIABLES tid, l
Obs == JsonDeserialize(IOEnv.OBS_FILE)
ToSet(s) == {s[i] : i \in 1..Len(s)}
Fn(s, S) == [o \in S |-> s[o]]
MonInit == /\ tid \in 1..Len(Obs) /\ l = 1
           /\ LET o == Obs[tid][1].state IN
              /\ objs = ToSet(o.objs) /\ ref = Fn(o.ref, ToSet(o.objs)) /\ len = Fn(o.len, ToSet(o.objs))
              /\ nobj = o.nobj /\ prox = ToSet(o.prox) /\ nprox = o.nprox /\ pend = {} /\ last = o.last
              /\ act = Obs[tid][1].act
MonNext == /\ l < Len(Obs[tid]) /\ l' = l + 1 /\ tid' = tid
           /\ LET o == Obs[tid][l + 1].state IN
              /\ objs' = ToSet(o.objs) /\ ref' = Fn(o.ref, ToSet(o.objs)) /\ len' = Fn(o.len, ToSet(o.objs))
              /\ nobj' = o.nobj /\ prox' = ToSet(o.prox) /\ nprox' = o.nprox /\ pend' = {} /\ last' = o.last
              /\ act' = Obs[tid][l + 1].act
CallsAnswered == [][act'.name = "Call" => last'[1] \in {"return", "error", "refused"}]_vars
=============================================================================
