--------------------------- MODULE MgrSrvMonitor ---------------------------
EXTENDS MgrSrv, IOUtils
VARIABLES tid, l
Obs == JsonDeserialize(IOEnv.OBS_FILE)
MonInit == /\ tid \in 1..Len(Obs) /\ l = 1
           /\ LET o == Obs[tid][1].state IN
              /\ pc = [t \in Threads |-> o.pc[t]] /\ ip = [t \in Threads |-> o.ip[t]]
              /\ held = [t \in Threads |-> o.held[t]] /\ refcount = o.refcount /\ present = o.present
              /\ act = Obs[tid][1].act
MonNext == /\ l < Len(Obs[tid]) /\ l' = l + 1 /\ tid' = tid
           /\ LET o == Obs[tid][l + 1].state IN
              /\ pc' = [t \in Threads |-> o.pc[t]] /\ ip' = [t \in Threads |-> o.ip[t]]
              /\ held' = [t \in Threads |-> o.held[t]] /\ refcount' = o.refcount /\ present' = o.present
              /\ act' = Obs[tid][l + 1].act
=============================================================================
