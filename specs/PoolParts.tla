----------------------------- MODULE PoolParts -----------------------------
(* One multi-part job -- Pool.map (MapResult), Pool.imap (IMapIterator),          *)
(* Pool.imap_unordered (IMapUnorderedIterator) -- inside billiard.pool.Pool:      *)
(* parts fed to the task pipe one by one, accepted and finished by workers,       *)
(* ACK / READY messages handled by the parent one at a time, supervision          *)
(* (_join_exited_workers: report expired lost marks, reap, attribute a loss to    *)
(* the job whose part the dead worker held; _repopulate_pool), worker recycling   *)
(* with the per-worker consumed-result counters.  Complements Pool.tla, whose     *)
(* jobs are single apply_async calls.                                             *)
(*                                                                                *)
(* Parent at message granularity (threads=False event loop), workers and kernel   *)
(* as environment.  Parts are numbered 1..NParts (the code counts from 0); the    *)
(* key 0 of `unsorted` stands for the code's key None.                            *)
EXTENDS Integers, Sequences, FiniteSets, TLC, Json

CONSTANTS
    Kind,         \* "map" | "imap" | "imapu"
    NParts,       \* parts (chunks) of the job
    Procs, MaxPid, MaxTime,
    Grace,        \* lost_worker_timeout (ticks)
    Quota,        \* maxtasksperchild, 0 = none
    Statuses,     \* exit statuses of a dying worker
    Results,      \* subset of {"ok", "err"}
    Periodic,     \* a supervision pass at least once per tick, pipes drained before the clock moves
    DevLostSticky,\* pinned code (F25, fixed): a lost mark is never cleared, and is reported at every
                  \* pass after the grace period whether or not a dead worker still holds a part
    TolImapLoss,  \* known finding F4: an ordered imap files the loss under key None and never delivers it
    TolMapCredit  \* known finding F6: the consumed-result credit goes to the first outstanding part's worker

EX_OK == 0
EX_RECYCLE == 155
None == <<>>
Some(v) == <<v>>
Val(o) == o[1]

VARIABLES
    nsent,      \* parts written to the task pipe so far
    lenset,     \* imap kinds: _set_length has been called (after the last part was fed)
    inq,        \* task pipe: part numbers
    outq,       \* result pipe: messages [t, i, pid, res]
    owners,     \* worker_pids() as a sequence of <<part, pid>>, in the order the handle lists them
    acc,        \* map: parts whose ACK was processed (MapResult._accepted)
    done,       \* [1..NParts -> "none" | "ok" | "err"]: result of the part as stored by the handle
    jr,         \* job record: ready, out, oarg, lost, incache, cb, ecb, left
    idx,        \* imap kinds: _index
    unsorted,   \* imap: keys of the reorder buffer (0 = None)
    deliv,      \* imap kinds: everything ever appended to _items, in order: [k, i]
    pool,       \* [pid, cnt]: Pool._pool in list order with the consumed-result counter
    w,          \* [pid -> [pc, i, nd, ex, held]]
    nextpid, now, supd,
    miscredit,  \* observation: credits that went to another worker than the sender
    lateack,    \* observation: an ACK was processed whose sender had already been reaped (F13)
    act

vars == <<nsent, lenset, inq, outq, owners, acc, done, jr, idx, unsorted, deliv, pool, w,
          nextpid, now, supd, miscredit, lateack, act>>
View == <<nsent, lenset, inq, outq, owners, acc, done, jr, idx, unsorted, deliv, pool, w,
          nextpid, now, supd, miscredit, lateack>>

Parts == 1..NParts
Pids == 1..MaxPid
IsMap == Kind = "map"

NoWorker == [pc |-> "none", i |-> 0, nd |-> 0, ex |-> None, held |-> 0]

Init ==
    /\ nsent = 0 /\ lenset = FALSE /\ inq = <<>> /\ outq = <<>>
    /\ owners = <<>> /\ acc = {} /\ done = [i \in Parts |-> "none"]
    /\ jr = [ready |-> FALSE, out |-> "none", oarg |-> 0, lost |-> None, incache |-> TRUE,
             cb |-> 0, ecb |-> 0, left |-> IF IsMap THEN NParts ELSE 0]
    /\ idx = 0 /\ unsorted = {} /\ deliv = <<>>
    /\ pool = [k \in 1..Procs |-> [pid |-> k, cnt |-> 0]]
    /\ w = [p \in Pids |-> IF p <= Procs THEN [NoWorker EXCEPT !.pc = "idle"] ELSE NoWorker]
    /\ nextpid = Procs + 1 /\ now = 0 /\ supd = FALSE /\ miscredit = 0 /\ lateack = FALSE
    /\ act = [name |-> "Init"]

PoolPids(pl) == {pl[k].pid : k \in 1..Len(pl)}
IdxOf(pl, pid) == CHOOSE k \in 1..Len(pl) : pl[k].pid = pid
Exited(p) == w[p].ex # None
OwnerPids(os) == {os[k][2] : k \in 1..Len(os)}
Without(os, i) == SelectSeq(os, LAMBDA e : e[1] # i)
HasPart(os, i) == \E k \in 1..Len(os) : os[k][1] = i

(* MapResult lists owners by item position (= part order); the iterators keep a dict   *)
(* in insertion order, an existing key keeps its place                                 *)
RECURSIVE InsertSorted(_, _)
InsertSorted(os, e) == IF os = <<>> THEN <<e>>
                       ELSE IF Head(os)[1] < e[1] THEN <<Head(os)>> \o InsertSorted(Tail(os), e)
                       ELSE IF Head(os)[1] = e[1] THEN <<e>> \o Tail(os)
                       ELSE <<e>> \o os
SetOwner(os, i, p) ==
    IF IsMap THEN InsertSorted(os, <<i, p>>)
    ELSE IF HasPart(os, i) THEN [k \in 1..Len(os) |-> IF os[k][1] = i THEN <<i, p>> ELSE os[k]]
    ELSE Append(os, <<i, p>>)

(* ------------------------------------------------------------------------- *)
(* the feeder (TaskHandler.body): one part per step, then _set_length          *)
SendPart ==
    /\ nsent < NParts
    /\ nsent' = nsent + 1 /\ inq' = Append(inq, nsent + 1)
    /\ act' = [name |-> "SendPart", i |-> nsent + 1]
    /\ UNCHANGED <<lenset, outq, owners, acc, done, jr, idx, unsorted, deliv, pool, w, nextpid, now,
                   supd, miscredit, lateack>>

SetLength ==
    /\ ~IsMap /\ nsent = NParts /\ ~lenset
    /\ lenset' = TRUE
    /\ jr' = IF idx = NParts THEN [jr EXCEPT !.ready = TRUE, !.incache = FALSE] ELSE jr
    /\ act' = [name |-> "SetLength"]
    /\ UNCHANGED <<nsent, inq, outq, owners, acc, done, idx, unsorted, deliv, pool, w, nextpid, now,
                   supd, miscredit, lateack>>

(* ------------------------------------------------------------------------- *)
(* environment: workers                                                      *)
W_Accept(p) ==
    /\ w[p].pc = "idle" /\ ~Exited(p) /\ inq # <<>>
    /\ LET i == Head(inq) IN
        /\ inq' = Tail(inq)
        /\ w' = [w EXCEPT ![p].pc = "run", ![p].i = i, ![p].held = i]
        /\ outq' = Append(outq, [t |-> "ACK", i |-> i, pid |-> p, res |-> "none"])
        /\ act' = [name |-> "W_Accept", pid |-> p, i |-> i]
    /\ UNCHANGED <<nsent, lenset, owners, acc, done, jr, idx, unsorted, deliv, pool, nextpid, now, supd,
                   miscredit, lateack>>

W_Finish(p, res) ==
    /\ w[p].pc = "run" /\ ~Exited(p)
    /\ LET nd == w[p].nd + 1 IN
        /\ w' = [w EXCEPT ![p].pc = IF Quota # 0 /\ nd >= Quota THEN "quota" ELSE "idle",
                          ![p].nd = nd, ![p].i = 0, ![p].held = 0]
        /\ outq' = Append(outq, [t |-> "READY", i |-> w[p].i, pid |-> p, res |-> res])
    /\ act' = [name |-> "W_Finish", pid |-> p, res |-> res]
    /\ UNCHANGED <<nsent, lenset, inq, owners, acc, done, jr, idx, unsorted, deliv, pool, nextpid, now,
                   supd, miscredit, lateack>>

Counter(p) == IF p \in PoolPids(pool) THEN pool[IdxOf(pool, p)].cnt ELSE 0

W_QuotaExit(p) ==   \* every result consumed by the parent -- or the 30 s guard ran out (guard = TRUE)
    /\ w[p].pc = "quota" /\ ~Exited(p)
    /\ \E guard \in BOOLEAN :
         /\ (guard \/ Counter(p) >= w[p].nd)
         /\ guard => Counter(p) < w[p].nd
         /\ act' = [name |-> "W_QuotaExit", pid |-> p, guard |-> guard]
    /\ w' = [w EXCEPT ![p].pc = "exited", ![p].ex = Some(EX_RECYCLE)]
    /\ UNCHANGED <<nsent, lenset, inq, outq, owners, acc, done, jr, idx, unsorted, deliv, pool, nextpid,
                   now, supd, miscredit, lateack>>

W_Die(p, st) ==
    /\ w[p].pc \in {"run", "idle", "quota"} /\ ~Exited(p) /\ st \in Statuses
    /\ w' = [w EXCEPT ![p].pc = "exited", ![p].ex = Some(st)]
    /\ act' = [name |-> "W_Die", pid |-> p, st |-> st]
    /\ UNCHANGED <<nsent, lenset, inq, outq, owners, acc, done, jr, idx, unsorted, deliv, pool, nextpid,
                   now, supd, miscredit, lateack>>

(* ------------------------------------------------------------------------- *)
(* result handler                                                            *)
RH_Ack ==
    /\ outq # <<>> /\ Head(outq).t = "ACK"
    /\ LET m == Head(outq) IN
        /\ outq' = Tail(outq)
        /\ IF jr.incache
             THEN /\ owners' = SetOwner(owners, m.i, m.pid)
                  /\ acc' = IF IsMap THEN acc \cup {m.i} ELSE acc
                  /\ jr' = IF IsMap /\ jr.ready THEN [jr EXCEPT !.incache = FALSE] ELSE jr
             ELSE UNCHANGED <<owners, acc, jr>>
        /\ act' = [name |-> "RH_Ack", i |-> m.i, pid |-> m.pid]
    /\ lateack' = (lateack \/ (jr.incache /\ Head(outq).pid \notin PoolPids(pool)))
    /\ UNCHANGED <<nsent, lenset, inq, done, idx, unsorted, deliv, pool, w, nextpid, now, supd, miscredit>>

Credit(pl, p) == IF p \in PoolPids(pl)
                   THEN [pl EXCEPT ![IdxOf(pl, p)].cnt = pl[IdxOf(pl, p)].cnt + 1] ELSE pl

(* IMapIterator._set(i, obj) for a real part i, or i = 0 for the key None               *)
RECURSIVE Flush(_, _, _)
Flush(ix, uns, dl) ==     \* release buffered successors: <<index, unsorted, appended tokens>>
    IF (ix + 1) \in uns THEN Flush(ix + 1, uns \ {ix + 1}, Append(dl, ix + 1)) ELSE <<ix, uns, dl>>

Tok(i, res) == [k |-> res, i |-> i]

RH_Ready ==
    /\ outq # <<>> /\ Head(outq).t = "READY"
    /\ LET m == Head(outq)
           i == m.i
           first == IF owners = <<>> THEN 0 ELSE owners[1][2]
       IN
        /\ outq' = Tail(outq)
        /\ act' = [name |-> "RH_Ready", i |-> i, pid |-> m.pid, res |-> m.res]
        /\ IF ~jr.incache
             THEN UNCHANGED <<owners, done, jr, idx, unsorted, deliv, pool, miscredit>>
             ELSE
              /\ pool' = IF first # 0 THEN Credit(pool, first) ELSE pool
              /\ miscredit' = IF first # m.pid /\ (first \in PoolPids(pool) \/ m.pid \in PoolPids(pool))
                                THEN miscredit + 1 ELSE miscredit
              /\ IF IsMap
                   THEN /\ UNCHANGED <<idx, unsorted, deliv>>
                        /\ IF m.res = "ok"
                             THEN /\ done' = [done EXCEPT ![i] = "ok"]
                                  /\ owners' = Without(owners, i)
                                  /\ jr' = IF jr.left = 1
                                             THEN [jr EXCEPT !.left = 0, !.ready = TRUE, !.out = "ok",
                                                             !.cb = jr.cb + 1, !.incache = FALSE]
                                             ELSE [jr EXCEPT !.left = jr.left - 1]
                             ELSE /\ done' = [done EXCEPT ![i] = "err"]
                                  /\ owners' = owners
                                  /\ jr' = [jr EXCEPT !.ready = TRUE, !.out = "err", !.oarg = i,
                                                      !.ecb = jr.ecb + 1, !.incache = FALSE]
                   ELSE
                    /\ owners' = Without(owners, i)
                    /\ done' = [done EXCEPT ![i] = m.res]
                    /\ IF Kind = "imapu"
                         THEN /\ deliv' = Append(deliv, Tok(i, m.res))
                              /\ idx' = idx + 1 /\ unsorted' = unsorted
                         ELSE IF idx + 1 = i
                           THEN LET f == Flush(idx + 1, unsorted, <<>>) IN
                                 /\ idx' = f[1] /\ unsorted' = f[2]
                                 /\ deliv' = deliv \o <<Tok(i, m.res)>>
                                               \o [k \in 1..Len(f[3]) |-> Tok(f[3][k], done'[f[3][k]])]
                           ELSE /\ unsorted' = unsorted \cup {i} /\ idx' = idx /\ deliv' = deliv
                    /\ jr' = IF lenset /\ idx' = NParts
                               THEN [jr EXCEPT !.ready = TRUE, !.incache = FALSE] ELSE jr
    /\ UNCHANGED <<nsent, lenset, inq, acc, w, nextpid, now, supd, lateack>>

(* ------------------------------------------------------------------------- *)
(* supervision                                                               *)
Remaining(pl) == SelectSeq(pl, LAMBDA r : ~Exited(r.pid))
ExitedSet(pl) == {pl[k].pid : k \in {n \in 1..Len(pl) : Exited(pl[n].pid)}}

(* phase 1: an expired lost mark is reported: job._set(None, (False, WorkerLostError))   *)
ReportDue == jr.incache /\ ~jr.ready /\ jr.lost # None /\ now - jr.lost[1] > Grace
StillHeld == \E k \in 1..Len(owners) : owners[k][2] \notin PoolPids(pool)

Maintain ==
    /\ LET report == ReportDue /\ (DevLostSticky \/ StillHeld)
           clear == ReportDue /\ ~DevLostSticky
           code == IF jr.lost # None THEN jr.lost[2] ELSE 0
           \* phase 1
           jr1 == IF ~report THEN jr
                  ELSE IF IsMap THEN [jr EXCEPT !.ready = TRUE, !.out = "lost", !.oarg = code,
                                                !.ecb = jr.ecb + 1, !.incache = FALSE]
                  ELSE IF Kind = "imapu" /\ lenset /\ idx + 1 = NParts
                         THEN [jr EXCEPT !.ready = TRUE, !.incache = FALSE]
                  ELSE jr
           jr1b == IF clear THEN [jr1 EXCEPT !.lost = None] ELSE jr1
           idx1 == IF report /\ Kind = "imapu" THEN idx + 1 ELSE idx
           deliv1 == IF report /\ Kind = "imapu" THEN Append(deliv, Tok(code, "lost")) ELSE deliv
           uns1 == IF report /\ Kind = "imap" THEN unsorted \cup {0} ELSE unsorted
           \* phase 2: reap, attribute
           cleaned == ExitedSet(pool)
           pl1 == Remaining(pool)
           alive == PoolPids(pl1)
           goneIdx == {k \in 1..Len(owners) : owners[k][2] \in cleaned \/ owners[k][2] \notin alive}
           first == IF goneIdx = {} THEN 0
                    ELSE owners[CHOOSE k \in goneIdx : \A k2 \in goneIdx : k <= k2][2]
           jr2 == IF cleaned # {} /\ jr1b.incache /\ first # 0 /\ ~jr1b.ready /\ jr1b.lost = None
                    THEN [jr1b EXCEPT !.lost = <<now, IF first \in cleaned THEN Val(w[first].ex) ELSE 0>>]
                    ELSE jr1b
           need == Procs - Len(pl1)
       IN /\ need <= MaxPid + 1 - nextpid
          /\ jr' = jr2 /\ idx' = idx1 /\ deliv' = deliv1 /\ unsorted' = uns1
          /\ pool' = pl1 \o [k \in 1..need |-> [pid |-> nextpid + k - 1, cnt |-> 0]]
          /\ nextpid' = nextpid + need
          /\ w' = [p \in Pids |-> IF p >= nextpid /\ p < nextpid + need
                                   THEN [NoWorker EXCEPT !.pc = "idle"] ELSE w[p]]
          /\ act' = [name |-> "Maintain", report |-> report]
    /\ supd' = TRUE
    /\ UNCHANGED <<nsent, lenset, inq, outq, owners, acc, done, now, miscredit, lateack>>

Tick ==
    /\ now < MaxTime
    /\ Periodic => (supd /\ outq = <<>>)
    /\ now' = now + 1 /\ supd' = FALSE
    /\ act' = [name |-> "Tick"]
    /\ UNCHANGED <<nsent, lenset, inq, outq, owners, acc, done, jr, idx, unsorted, deliv, pool, w, nextpid,
                   miscredit, lateack>>

Next ==
    \/ SendPart \/ SetLength
    \/ \E p \in Pids : W_Accept(p) \/ W_QuotaExit(p)
    \/ \E p \in Pids, r \in Results : W_Finish(p, r)
    \/ \E p \in Pids, st \in Statuses : W_Die(p, st)
    \/ RH_Ack \/ RH_Ready \/ Maintain \/ Tick

Spec == Init /\ [][Next]_vars

(* ========================================================================= *)
(* Properties                                                                 *)
LostToks == {k \in 1..Len(deliv) : deliv[k].k = "lost"}
PartToks(i) == {k \in 1..Len(deliv) : deliv[k].k # "lost" /\ deliv[k].i = i}
(* parts whose worker died holding them: accepted, no result sent *)
DeadHolding == {i \in Parts : \E p \in Pids : w[p].ex # None /\ w[p].held = i}

(* C01: an outcome, once observable, stands; callbacks at most once *)
OutcomeStable == [][jr.ready => (jr'.ready /\ jr'.out = jr.out /\ jr'.oarg = jr.oarg)]_vars
CallbacksOnce == jr.cb + jr.ecb <= 1 /\ (jr.cb = 1 => jr.out = "ok") /\ (jr.ecb = 1 => jr.out \in {"err", "lost"})
DelivStable == [][Len(deliv') >= Len(deliv) /\ \A k \in 1..Len(deliv) : deliv'[k] = deliv[k]]_vars
(* map: the outcome is the parts' outcome *)
MapOutcome == (IsMap /\ jr.ready) =>
                 /\ (jr.out = "ok" => \A i \in Parts : done[i] = "ok")
                 /\ (jr.out = "err" => done[jr.oarg] = "err")
                 /\ jr.out \in {"ok", "err", "lost"}
(* every part is delivered at most once, and only with the result its worker sent *)
PartOnce == \A i \in Parts : Cardinality(PartToks(i)) <= 1
                               /\ \A k \in PartToks(i) : deliv[k].k = done[i]
ImapInOrder == Kind = "imap" => \A k \in 1..Len(deliv) : deliv[k].k # "lost" => deliv[k].i = k
(* a failure is made by the pool only for a part whose worker really died holding it,    *)
(* and once per such part (C01 "exactly one terminal outcome", C04 "exactly its job")    *)
LossOnlyIfReal == (jr.lost # None \/ jr.out = "lost" \/ LostToks # {}) => (\E p \in Pids : w[p].ex # None)
LostExact == Periodic => /\ Cardinality(LostToks) <= Cardinality(DeadHolding)
                         /\ (IsMap /\ jr.out = "lost") => DeadHolding # {}
(* with the parent keeping up, a part that was delivered is not also reported lost *)
NoDoubleOutcome == Periodic => \A i \in Parts :
                      Cardinality(PartToks(i)) + (IF i \in DeadHolding THEN 1 ELSE 0) <= 1
                      \/ Cardinality(LostToks) < Cardinality(DeadHolding)
LostNotEarly == [][(Cardinality(LostToks') > Cardinality(LostToks) \/ (jr.out # "lost" /\ jr'.out = "lost"))
                      => (jr.lost # None /\ now - jr.lost[1] > Grace)]_vars
(* the mark carries the time of detection and the real exit status *)
LostMarkRight == [][(jr'.lost # jr.lost /\ jr'.lost # None) =>
                      /\ jr'.lost[1] = now /\ act'.name = "Maintain"
                      /\ \E p \in Pids : w[p].ex # None /\ (jr'.lost[2] = Val(w[p].ex) \/ jr'.lost[2] = 0)]_vars
(* recycling is harmless (C09): with the parent keeping up, nothing is ever reported lost *)
(* unless a worker died holding a part -- whatever statuses the other workers left with    *)
RecycleHarmless == (Periodic /\ DeadHolding = {}) => (jr.out # "lost" /\ LostToks = {})
(* bounded liveness: when the environment is quiet, everything fed and the grace period of *)
(* any loss over (one pass after it), the job has reported every part                      *)
QuietEnv == /\ outq = <<>> /\ inq = <<>> /\ nsent = NParts /\ (IsMap \/ lenset)
            /\ \A p \in Pids : w[p].pc \in {"none", "idle", "exited"}
            /\ \A k \in 1..Len(pool) : ~Exited(pool[k].pid)
Complete == IF IsMap THEN jr.ready
            ELSE /\ jr.ready
                 /\ Len(deliv) = NParts
LossPending == jr.lost # None /\ (now - jr.lost[1] <= Grace \/ ~supd)
QuietComplete == (QuietEnv /\ supd) =>
                    \/ Complete
                    \/ LossPending
                    \/ (TolImapLoss /\ Kind = "imap" /\ DeadHolding # {})
                    \/ lateack      \* F13: attributed only at a later reap
(* the iterator reports exhaustion exactly when every part has been delivered *)
ReadyExact == (~IsMap /\ jr.ready) => (lenset /\ Len(deliv) = NParts)
(* a worker is an owner exactly while it holds an accepted, unfinished part *)
OwnersExact == \A k \in 1..Len(owners) : done[owners[k][1]] = "none" \/ (IsMap /\ jr.ready)
(* C07 / C09: the consumed-result credit goes to the worker that sent the result *)
CreditExact == TolMapCredit \/ miscredit = 0

(* ========================================================================= *)
Proj == [nsent |-> nsent, lenset |-> lenset, inq |-> inq, outq |-> outq, owners |-> owners,
         acc |-> acc, done |-> done, jr |-> jr, idx |-> idx, unsorted |-> unsorted, deliv |-> deliv,
         pool |-> pool, w |-> [p \in 1..(nextpid - 1) |-> w[p]], now |-> now, miscredit |-> miscredit,
         lateack |-> lateack]
EmitEdge == PrintT(ToJson([from |-> Proj, act |-> act', to |-> Proj', lvl |-> TLCGet("level")]))
EmitInit == TLCGet("level") > 1 \/ PrintT(ToJson([init |-> Proj]))
=============================================================================
