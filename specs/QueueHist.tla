----------------------------- MODULE QueueHist -----------------------------
(* Recorded histories of real billiard queues (Queue, JoinableQueue, SimpleQueue) used   *)
(* by several processes and threads: every call is an event                               *)
(*     [k, who, p, n, t0, t1, to]                                                         *)
(* k: "put" "get" "full" "empty" "task_done" "join";  <<p, n>>: the n-th item of producer  *)
(* p;  t0/t1: CLOCK_MONOTONIC microseconds before the call and after it returned (system-  *)
(* wide on Linux, so an interval only ever *contains* the instant the call took effect);    *)
(* to: timeout in microseconds (0 = none).  The formulas below are sound for intervals:     *)
(* they flag only what no order of the calls within their intervals can explain under       *)
(* Queue.tla (no loss, no duplication, per-producer FIFO, capacity, refusals, join).        *)
EXTENDS Integers, Sequences, FiniteSets, TLC, Json, IOUtils

VARIABLES tid
Obs == JsonDeserialize(IOEnv.OBS_FILE)      \* sequence of [name, maxsize, drained, events]
H == Obs[tid].events
MaxSize == Obs[tid].maxsize
Idx == 1..Len(H)
Kind(k) == {i \in Idx : H[i].k = k}

MonInit == tid \in 1..Len(Obs)
MonNext == UNCHANGED tid

(* every object put is returned by exactly one get *)
NoDup == \A i, j \in Kind("get") : i # j => ~(H[i].p = H[j].p /\ H[i].n = H[j].n)
NoAlien == \A i \in Kind("get") : \E j \in Kind("put") : H[j].p = H[i].p /\ H[j].n = H[i].n /\ H[j].t0 <= H[i].t1
NoLoss == Obs[tid].drained => \A j \in Kind("put") : \E i \in Kind("get") : H[j].p = H[i].p /\ H[j].n = H[i].n
(* same producer: a get that returned before another began took the earlier item *)
PerProducerFIFO == \A i, j \in Kind("get") :
                      (H[i].p = H[j].p /\ H[i].t1 < H[j].t0) => H[i].n < H[j].n
(* at most maxsize items waiting: at the moment a put returns, puts that have returned minus *)
(* gets that have begun cannot exceed the capacity                                           *)
Capacity == MaxSize = 0 \/ \A i \in Kind("put") :
                Cardinality({j \in Kind("put") : H[j].t1 <= H[i].t1})
                  - Cardinality({j \in Kind("get") : H[j].t0 <= H[i].t1}) <= MaxSize
(* Full only if the queue can have been full at some instant of the refused call *)
FullOnlyWhenFull == \A i \in Kind("full") :
                Cardinality({j \in Kind("put") : H[j].t0 < H[i].t1})
                  - Cardinality({j \in Kind("get") : H[j].t1 <= H[i].t0}) >= MaxSize
(* Empty from a timed get only once its timeout has elapsed (1 ms clock granularity) *)
EmptyOnlyAfterTimeout == \A i \in Kind("empty") : H[i].t1 - H[i].t0 >= H[i].to - 1000
(* ... and only if the queue can have been empty: not when an item put long before is still unread *)
EmptyOnlyWhenEmpty == \A i \in Kind("empty") :
                Cardinality({j \in Kind("put") : H[j].t1 + Obs[tid].settle <= H[i].t0})
                  - Cardinality({j \in Kind("get") : H[j].t0 <= H[i].t1}) <= 0
(* join returns only when every item put has been matched by a task_done *)
JoinExact == \A i \in Kind("join") :
                Cardinality({j \in Kind("task_done") : H[j].t0 <= H[i].t1})
                  >= Cardinality({j \in Kind("put") : H[j].t1 <= H[i].t0})
(* every party came back from its calls: nobody is stuck in put / get / join for good, no get
   fails on a damaged stream, no party dies *)
NobodyStuck == \A i \in Idx : H[i].k \notin {"party_hung", "party_died", "join_hung", "get_error", "put_error"}
=============================================================================
