---------------------------- MODULE PoolMonitor ----------------------------
(* Layer-2 monitor for Pool.tla: walks observed state sequences of the real Pool   *)
(* (projected by harness/pool.py or reconstructed from recorded traces) and         *)
(* evaluates Pool's own property formulas on them.                                  *)
EXTENDS Pool, IOUtils
VARIABLES tid, l
Obs == JsonDeserialize(IOEnv.OBS_FILE)

ToSet(s) == {s[i] : i \in 1..Len(s)}
PadJobs(js) == [j \in Jobs |-> IF j <= Len(js) THEN js[j] ELSE NoJob]
PadW(ws) == [p \in Pids |-> IF p <= Len(ws) THEN ws[p] ELSE NoWorker]

Bind(o, a) ==
    /\ hook = o.hook /\ pstate = o.pstate /\ nsub = o.nsub /\ job = PadJobs(o.job) /\ pool = o.pool
    /\ procs = o.procs /\ nextpid = Len(o.w) + 1 /\ sem = o.sem /\ rs = o.rs
    /\ dirty = ToSet(o.dirty) /\ inq = o.inq /\ outq = o.outq /\ w = PadW(o.w)
    /\ sigs = o.sigs /\ now = o.now /\ ndup = 0 /\ supd = FALSE /\ scand = FALSE
    /\ raised = o.raised /\ scanning = o.scanning /\ snap = o.snap /\ act = a

MonInit == /\ tid \in 1..Len(Obs) /\ l = 1
           /\ Bind(Obs[tid][1].state, Obs[tid][1].act)

MonNext == /\ l < Len(Obs[tid]) /\ l' = l + 1 /\ tid' = tid
           /\ LET o == Obs[tid][l + 1].state
                  a == Obs[tid][l + 1].act
              IN /\ hook' = o.hook /\ pstate' = o.pstate /\ nsub' = o.nsub /\ job' = PadJobs(o.job) /\ pool' = o.pool
                 /\ procs' = o.procs /\ nextpid' = Len(o.w) + 1 /\ sem' = o.sem /\ rs' = o.rs
                 /\ dirty' = ToSet(o.dirty) /\ inq' = o.inq /\ outq' = o.outq /\ w' = PadW(o.w)
                 /\ sigs' = o.sigs /\ now' = o.now /\ ndup' = 0 /\ supd' = FALSE /\ scand' = FALSE
                 /\ raised' = o.raised /\ scanning' = o.scanning /\ snap' = o.snap /\ act' = a
=============================================================================
