---------------------------- MODULE PoolMonitor ----------------------------
(* Layer-2 monitor for Pool.tla: walks observed state sequences of the real Pool   *)
(* (projected by harness/pool.py or reconstructed from recorded traces) and         *)
(* evaluates Pool's own property formulas on them.                                  *)
EXTENDS Pool, IOUtils
VARIABLES tid, l,
          grs, graised, glen      \* ghost restart budget: what the specification's restart_state holds when it is
                                  \* fed the *observed* exits and acceptances (not the implementation's own counters),
                                  \* and what the last supervision pass should therefore have done
Obs == JsonDeserialize(IOEnv.OBS_FILE)

ToSet(s) == {s[i] : i \in 1..Len(s)}
PadJobs(js) == [j \in Jobs |-> IF j <= Len(js) THEN js[j] ELSE NoJob]
PadW(ws) == [p \in Pids |-> IF p <= Len(ws) THEN ws[p] ELSE NoWorker]

Bind(o, a) ==
    /\ hook = o.hook /\ pstate = o.pstate /\ nsub = o.nsub /\ job = PadJobs(o.job) /\ pool = o.pool
    /\ procs = o.procs /\ nextpid = Len(o.w) + 1 /\ sem = o.sem /\ rs = o.rs
    /\ dirty = ToSet(o.dirty) /\ inq = o.inq /\ outq = o.outq /\ w = PadW(o.w)
    /\ sigs = o.sigs /\ now = o.now /\ ndup = 0 /\ supd = FALSE /\ scand = FALSE
    /\ raised = o.raised /\ scanning = o.scanning /\ snap = o.snap /\ act = a

MonInit == /\ tid \in 1..Len(Obs) /\ l = 1
           /\ Bind(Obs[tid][1].state, Obs[tid][1].act)
           /\ grs = [R |-> 0, T |-> None] /\ graised = FALSE /\ glen = Len(Obs[tid][1].state.pool)

MonNext == /\ l < Len(Obs[tid]) /\ l' = l + 1 /\ tid' = tid
           /\ LET o == Obs[tid][l + 1].state
                  a == Obs[tid][l + 1].act
              IN /\ hook' = o.hook /\ pstate' = o.pstate /\ nsub' = o.nsub /\ job' = PadJobs(o.job) /\ pool' = o.pool
                 /\ procs' = o.procs /\ nextpid' = Len(o.w) + 1 /\ sem' = o.sem /\ rs' = o.rs
                 /\ dirty' = ToSet(o.dirty) /\ inq' = o.inq /\ outq' = o.outq /\ w' = PadW(o.w)
                 /\ sigs' = o.sigs /\ now' = o.now /\ ndup' = 0 /\ supd' = FALSE /\ scand' = FALSE
                 /\ raised' = o.raised /\ scanning' = o.scanning /\ snap' = o.snap /\ act' = a
                 /\ IF a.name = "Maintain" /\ pstate = "RUN" /\ ~raised
                      THEN LET st == Repop(<<Remaining(pool), grs, nextpid, FALSE>>, ExitCodes(pool), 1)
                           IN grs' = st[2] /\ graised' = st[4] /\ glen' = Len(st[1])
                      ELSE /\ grs' = IF a.name = "RH_Ack" THEN [grs EXCEPT !.R = 0] ELSE grs
                           /\ graised' = o.raised /\ glen' = Len(o.pool)
(* C11, independent of the implementation's counters: every supervision pass admitted exactly the
   replacements the budget allows and raised exactly when it was exhausted *)
BudgetEnforced == (act.name = "Maintain" /\ l > 1) => (raised = graised /\ Len(pool) = glen)
=============================================================================
