---------------------------- MODULE ProcMonitor ----------------------------
(* Observed life cycles of real child processes.  `phase` is what the driver knows to   *)
(* be the case (it releases the child and waits for its death through a channel that    *)
(* does not involve billiard); every value billiard reports is compared with Proc's     *)
(* Expected* operators.                                                                  *)
EXTENDS Proc, IOUtils
VARIABLES tid, l
Obs == JsonDeserialize(IOEnv.OBS_FILE)
MonInit == /\ tid \in 1..Len(Obs) /\ l = 1
           /\ LET o == Obs[tid][1].state IN
              /\ method = o.method /\ how = o.how /\ phase = o.phase /\ reaped = FALSE
              /\ listed = FALSE /\ ncalls = 0 /\ last = <<"none", 0>> /\ act = Obs[tid][1].act
MonNext == /\ l < Len(Obs[tid]) /\ l' = l + 1 /\ tid' = tid
           /\ LET o == Obs[tid][l + 1].state IN
              /\ method' = o.method /\ how' = o.how /\ phase' = o.phase
              /\ act' = Obs[tid][l + 1].act
           /\ UNCHANGED <<reaped, listed, ncalls, last>>
(* the observation made in this step, judged in the state it was made in (phase') *)
ExitcodeFaithful == [][act'.e = "exitcode" =>
      act'.ret = (IF phase' = "ended" THEN <<Decode(how', method')>> ELSE <<>>)]_vars
AliveFaithful == [][act'.e = "is_alive" => (act'.ret <=> (phase' = "running"))]_vars
JoinWithinTimeout == [][act'.e = "join_timed" => (act'.intime /\ (act'.joined <=> phase' = "ended"))]_vars
JoinReturnsWhenEnded == [][act'.e = "join" => (act'.joined /\ phase' = "ended")]_vars
NotActiveAfterJoin == [][act'.e = "active" => (act'.ret <=> (phase' = "running"))]_vars
(* the observation calls themselves (exitcode, is_alive, join, active_children) never raise *)
ObservationsAnswer == [][act'.e # "api_error"]_vars
StartOnce == [][act'.e = "start_again" => act'.ret = "refused"]_vars
StartOnlyByCreator == [][act'.e = "start_in_child" => act'.ret = "refused"]_vars
=============================================================================
