-------------------------------- MODULE Race --------------------------------
(* One job and the parent threads that look at it when the pool runs with helper threads:    *)
(* three may give it its outcome -- result handler (the worker's result), time-limit scanner  *)
(* (TimeLimitExceeded), supervisor (WorkerLostError) -- and the scanner's soft-limit branch   *)
(* may signal its worker.  Granularity: each thread *looks* whether the job is resolved and   *)
(* then *acts*.  The act of a writer is ApplyResult._set, in its own steps:                   *)
(*   Arrive   the call reaches the handle's mutex (a writer whose look said "resolved" never   *)
(*            gets there)                                                                     *)
(*   Acquire  it gets the mutex -- another writer may have held it meanwhile -- and, under it, *)
(*            tests whether the job is resolved already (`FirstWriterWins`); if not it enters  *)
(*            the user's on_timeout_cancel hook (`intc`), still before anything is published   *)
(*   Publish  outcome, event and table are updated, then the user's callback is entered        *)
(*            (`incb`), where the call may stay for as long as the user likes                  *)
(*   Finish   the callback returns, the mutex is released                                      *)
(* C01: an outcome never changes once it is observable; callbacks fire at most once.          *)
(* C06: no soft-limit signal for a job whose result has been processed already -- a callback  *)
(*      that has been entered is the observable proof that it has.                            *)
EXTENDS Integers, Sequences, FiniteSets, TLC, Json
CONSTANTS Writers,          \* subset of {"result", "timeout", "lost", "soft"}
          FirstWriterWins   \* BOOLEAN: _set ignores a second outcome
VARIABLES pc,       \* w -> "idle" | "checked" | "atlock" | "intc" | "incb" | "done"
          saw,      \* w -> what its look said: job still unresolved?
          look,     \* w -> callbacks entered at the moment of its look
          out,      \* "none" | "ok" | "timelimit" | "lost"
          incache,  \* the job is in the table
          cb, ecb,  \* success / error callbacks entered
          tcancel,  \* on_timeout_cancel hooks entered
          mutex,    \* "none" or the writer that is inside _set
          softsig,  \* soft-limit signals sent to the job's worker
          tcb,      \* timeout callbacks (soft) fired
          hist,     \* every outcome the job was ever given, in order
          act
vars == <<pc, saw, look, out, incache, cb, ecb, tcancel, mutex, softsig, tcb, hist, act>>
View == <<pc, saw, look, out, incache, cb, ecb, tcancel, mutex, softsig, tcb, hist>>
Setters == Writers \ {"soft"}
What(w) == CASE w = "result" -> "ok" [] w = "timeout" -> "timelimit" [] w = "lost" -> "lost"
Init == /\ pc = [w \in Writers |-> "idle"] /\ saw = [w \in Writers |-> FALSE]
        /\ look = [w \in Writers |-> 0]
        /\ out = "none" /\ incache = TRUE /\ cb = 0 /\ ecb = 0 /\ tcancel = 0 /\ hist = <<>>
        /\ mutex = "none" /\ softsig = 0 /\ tcb = 0
        /\ act = [name |-> "Init"]
(* the thread looks: the result handler looks the job up in the table (a job that has left it is
   ignored) and notes whether it is resolved; the scanner and the supervisor test ready().
   No look needs the mutex. *)
Check(w) ==
    /\ pc[w] = "idle"
    /\ pc' = [pc EXCEPT ![w] = "checked"]
    /\ saw' = [saw EXCEPT ![w] = IF w = "result" THEN incache ELSE out = "none"]
    /\ look' = [look EXCEPT ![w] = cb + ecb]
    /\ act' = [name |-> "Check", w |-> w]
    /\ UNCHANGED <<out, incache, cb, ecb, tcancel, mutex, softsig, tcb, hist>>
(* ... and a writer acts on what it saw: it calls _set and reaches the mutex, or returns *)
Arrive(w) ==
    /\ w \in Setters /\ pc[w] = "checked"
    /\ pc' = [pc EXCEPT ![w] = IF saw[w] THEN "atlock" ELSE "done"]
    /\ act' = [name |-> "Arrive", w |-> w]
    /\ UNCHANGED <<saw, look, out, incache, cb, ecb, tcancel, mutex, softsig, tcb, hist>>
Acquire(w) ==
    /\ w \in Setters /\ pc[w] = "atlock" /\ mutex = "none"
    /\ IF FirstWriterWins /\ out # "none"
         THEN /\ pc' = [pc EXCEPT ![w] = "done"]          \* resolved meanwhile: nothing to do
              /\ UNCHANGED <<mutex, tcancel>>
         ELSE /\ pc' = [pc EXCEPT ![w] = "intc"] /\ mutex' = w /\ tcancel' = tcancel + 1
    /\ act' = [name |-> "Acquire", w |-> w]
    /\ UNCHANGED <<saw, look, out, incache, cb, ecb, softsig, tcb, hist>>
Publish(w) ==
    /\ w \in Setters /\ pc[w] = "intc"
    /\ out' = What(w) /\ hist' = Append(hist, What(w)) /\ incache' = FALSE
    /\ cb' = IF w = "result" THEN cb + 1 ELSE cb
    /\ ecb' = IF w = "result" THEN ecb ELSE ecb + 1
    /\ pc' = [pc EXCEPT ![w] = "incb"]
    /\ act' = [name |-> "Publish", w |-> w]
    /\ UNCHANGED <<saw, look, tcancel, mutex, softsig, tcb>>
(* the user's callback returns; _set releases the mutex *)
Finish(w) ==
    /\ w \in Setters /\ pc[w] = "incb"
    /\ pc' = [pc EXCEPT ![w] = "done"] /\ mutex' = "none"
    /\ act' = [name |-> "Finish", w |-> w]
    /\ UNCHANGED <<saw, look, out, incache, cb, ecb, tcancel, softsig, tcb, hist>>
(* TimeoutHandler.on_soft_timeout after its ready() look: timeout callback, then the signal *)
SoftAct ==
    /\ "soft" \in Writers /\ pc["soft"] = "checked"
    /\ pc' = [pc EXCEPT !["soft"] = "done"]
    /\ IF saw["soft"] THEN softsig' = softsig + 1 /\ tcb' = tcb + 1
                      ELSE UNCHANGED <<softsig, tcb>>
    /\ act' = [name |-> "SoftAct", w |-> "soft"]
    /\ UNCHANGED <<saw, look, out, incache, cb, ecb, tcancel, mutex, hist>>
Next == SoftAct \/ \E w \in Writers : Check(w) \/ Arrive(w) \/ Acquire(w) \/ Publish(w) \/ Finish(w)
Spec == Init /\ [][Next]_vars
OutcomeStable == Len(hist) <= 1
CallbacksOnce == cb + ecb <= 1 /\ tcancel <= 1
(* when user code is told of the outcome, everybody else can see it too *)
PublishedBeforeCallback == cb + ecb > 0 => out # "none" /\ ~incache
(* no signal on behalf of a job whose result had been processed when the scanner looked *)
SoftOnlyIfUnprocessed == softsig > 0 => look["soft"] = 0
SoftSignalMatchesCallback == softsig = tcb /\ softsig <= 1
MutexIsCallback == (mutex # "none") <=> (\E w \in Setters : pc[w] \in {"intc", "incb"} /\ mutex = w)
Proj == [pc |-> pc, saw |-> saw, look |-> look, out |-> out, incache |-> incache, cb |-> cb, ecb |-> ecb,
         tcancel |-> tcancel, mutex |-> mutex, softsig |-> softsig, tcb |-> tcb, hist |-> hist]
EmitEdge == PrintT(ToJson([from |-> Proj, act |-> act', to |-> Proj', lvl |-> TLCGet("level")]))
EmitInit == TLCGet("level") > 1 \/ PrintT(ToJson([init |-> Proj]))
=============================================================================
