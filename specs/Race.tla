-------------------------------- MODULE Race --------------------------------
(* One job, the three parent threads that may give it its outcome when the pool runs with   *)
(* helper threads -- result handler (the worker's result), time-limit scanner                *)
(* (TimeLimitExceeded), supervisor (WorkerLostError) -- at the granularity of their two      *)
(* steps: look whether the job is resolved already, then resolve it.  ApplyResult._set has    *)
(* no guard of its own: `FirstWriterWins` says whether it keeps the first outcome.            *)
(* C01: an outcome never changes once it is observable; callbacks fire at most once.          *)
EXTENDS Integers, Sequences, FiniteSets, TLC, Json
CONSTANTS Writers,          \* subset of {"result", "timeout", "lost"}
          FirstWriterWins   \* BOOLEAN: _set ignores a second outcome
VARIABLES pc,       \* w -> "idle" | "checked" | "done"
          saw,      \* w -> what its look said: job still unresolved?
          out,      \* "none" | "ok" | "timelimit" | "lost"
          incache,  \* the job is in the table
          cb, ecb,  \* success / error callbacks fired
          hist,     \* every outcome the job was ever given, in order
          act
vars == <<pc, saw, out, incache, cb, ecb, hist, act>>
View == <<pc, saw, out, incache, cb, ecb, hist>>
What(w) == CASE w = "result" -> "ok" [] w = "timeout" -> "timelimit" [] w = "lost" -> "lost"
Init == /\ pc = [w \in Writers |-> "idle"] /\ saw = [w \in Writers |-> FALSE]
        /\ out = "none" /\ incache = TRUE /\ cb = 0 /\ ecb = 0 /\ hist = <<>>
        /\ act = [name |-> "Init"]
(* the writer looks: the result handler looks the job up in the table (a job that has left it is
   ignored) and notes whether it is resolved; the scanner and the supervisor test ready() *)
Check(w) ==
    /\ pc[w] = "idle"
    /\ pc' = [pc EXCEPT ![w] = "checked"]
    /\ saw' = [saw EXCEPT ![w] = IF w = "result" THEN incache ELSE out = "none"]
    /\ act' = [name |-> "Check", w |-> w]
    /\ UNCHANGED <<out, incache, cb, ecb, hist>>
(* ... and acts on what it saw *)
Set(w) ==
    /\ pc[w] = "checked"
    /\ pc' = [pc EXCEPT ![w] = "done"]
    /\ IF saw[w] /\ ~(FirstWriterWins /\ out # "none")
         THEN /\ out' = What(w) /\ hist' = Append(hist, What(w)) /\ incache' = FALSE
              /\ cb' = IF w = "result" THEN cb + 1 ELSE cb
              /\ ecb' = IF w = "result" THEN ecb ELSE ecb + 1
         ELSE UNCHANGED <<out, hist, incache, cb, ecb>>
    /\ act' = [name |-> "Set", w |-> w]
    /\ UNCHANGED saw
Next == \E w \in Writers : Check(w) \/ Set(w)
Spec == Init /\ [][Next]_vars
OutcomeStable == Len(hist) <= 1
CallbacksOnce == cb + ecb <= 1
Proj == [pc |-> pc, saw |-> saw, out |-> out, incache |-> incache, cb |-> cb, ecb |-> ecb, hist |-> hist]
EmitEdge == PrintT(ToJson([from |-> Proj, act |-> act', to |-> Proj', lvl |-> TLCGet("level")]))
EmitInit == TLCGet("level") > 1 \/ PrintT(ToJson([init |-> Proj]))
=============================================================================
