-------------------------------- MODULE Race --------------------------------
(* One job and the parent threads that look at it when the pool runs with helper threads:    *)
(* three may give it its outcome -- result handler (the worker's result), time-limit scanner  *)
(* (TimeLimitExceeded), supervisor (WorkerLostError) -- and the scanner's soft-limit branch   *)
(* may signal its worker.  Granularity: each thread *looks* whether the job is resolved and   *)
(* then *acts*; the act of a writer is ApplyResult._set, which takes the handle's mutex,      *)
(* publishes the outcome (event, table) and only then enters the user's callback, where it    *)
(* may stay for as long as the user likes (`incb`) with the mutex held.                       *)
(* `FirstWriterWins` says whether _set keeps the first outcome.                               *)
(* C01: an outcome never changes once it is observable; callbacks fire at most once.          *)
(* C06: no soft-limit signal for a job whose result has been processed already -- a callback  *)
(*      that has been entered is the observable proof that it has.                            *)
EXTENDS Integers, Sequences, FiniteSets, TLC, Json
CONSTANTS Writers,          \* subset of {"result", "timeout", "lost", "soft"}
          FirstWriterWins   \* BOOLEAN: _set ignores a second outcome
VARIABLES pc,       \* w -> "idle" | "checked" | "incb" | "done"
          saw,      \* w -> what its look said: job still unresolved?
          look,     \* w -> callbacks entered at the moment of its look
          out,      \* "none" | "ok" | "timelimit" | "lost"
          incache,  \* the job is in the table
          cb, ecb,  \* success / error callbacks entered
          mutex,    \* "none" or the writer that is inside _set
          softsig,  \* soft-limit signals sent to the job's worker
          tcb,      \* timeout callbacks (soft) fired
          hist,     \* every outcome the job was ever given, in order
          act
vars == <<pc, saw, look, out, incache, cb, ecb, mutex, softsig, tcb, hist, act>>
View == <<pc, saw, look, out, incache, cb, ecb, mutex, softsig, tcb, hist>>
Setters == Writers \ {"soft"}
What(w) == CASE w = "result" -> "ok" [] w = "timeout" -> "timelimit" [] w = "lost" -> "lost"
Init == /\ pc = [w \in Writers |-> "idle"] /\ saw = [w \in Writers |-> FALSE]
        /\ look = [w \in Writers |-> 0]
        /\ out = "none" /\ incache = TRUE /\ cb = 0 /\ ecb = 0 /\ hist = <<>>
        /\ mutex = "none" /\ softsig = 0 /\ tcb = 0
        /\ act = [name |-> "Init"]
(* the thread looks: the result handler looks the job up in the table (a job that has left it is
   ignored) and notes whether it is resolved; the scanner and the supervisor test ready().
   No look needs the mutex. *)
Check(w) ==
    /\ pc[w] = "idle"
    /\ pc' = [pc EXCEPT ![w] = "checked"]
    /\ saw' = [saw EXCEPT ![w] = IF w = "result" THEN incache ELSE out = "none"]
    /\ look' = [look EXCEPT ![w] = cb + ecb]
    /\ act' = [name |-> "Check", w |-> w]
    /\ UNCHANGED <<out, incache, cb, ecb, mutex, softsig, tcb, hist>>
(* ... and a writer acts on what it saw: _set, up to the entry of the user's callback.  A writer
   that finds the mutex taken waits (the action is not enabled); one whose look said "resolved"
   returns without touching it. *)
Set(w) ==
    /\ w \in Setters /\ pc[w] = "checked" /\ (saw[w] => mutex = "none")
    /\ IF saw[w] /\ ~(FirstWriterWins /\ out # "none")
         THEN /\ out' = What(w) /\ hist' = Append(hist, What(w)) /\ incache' = FALSE
              /\ cb' = IF w = "result" THEN cb + 1 ELSE cb
              /\ ecb' = IF w = "result" THEN ecb ELSE ecb + 1
              /\ mutex' = w /\ pc' = [pc EXCEPT ![w] = "incb"]
         ELSE /\ UNCHANGED <<out, hist, incache, cb, ecb, mutex>>
              /\ pc' = [pc EXCEPT ![w] = "done"]
    /\ act' = [name |-> "Set", w |-> w]
    /\ UNCHANGED <<saw, look, softsig, tcb>>
(* the user's callback returns; _set releases the mutex *)
Finish(w) ==
    /\ w \in Setters /\ pc[w] = "incb"
    /\ pc' = [pc EXCEPT ![w] = "done"] /\ mutex' = "none"
    /\ act' = [name |-> "Finish", w |-> w]
    /\ UNCHANGED <<saw, look, out, incache, cb, ecb, softsig, tcb, hist>>
(* TimeoutHandler.on_soft_timeout after its ready() look: timeout callback, then the signal *)
SoftAct ==
    /\ "soft" \in Writers /\ pc["soft"] = "checked"
    /\ pc' = [pc EXCEPT !["soft"] = "done"]
    /\ IF saw["soft"] THEN softsig' = softsig + 1 /\ tcb' = tcb + 1
                      ELSE UNCHANGED <<softsig, tcb>>
    /\ act' = [name |-> "SoftAct", w |-> "soft"]
    /\ UNCHANGED <<saw, look, out, incache, cb, ecb, mutex, hist>>
Next == SoftAct \/ \E w \in Writers : Check(w) \/ Set(w) \/ Finish(w)
Spec == Init /\ [][Next]_vars
OutcomeStable == Len(hist) <= 1
CallbacksOnce == cb + ecb <= 1
(* when user code is told of the outcome, everybody else can see it too *)
PublishedBeforeCallback == cb + ecb > 0 => out # "none" /\ ~incache
(* no signal on behalf of a job whose result had been processed when the scanner looked *)
SoftOnlyIfUnprocessed == softsig > 0 => look["soft"] = 0
SoftSignalMatchesCallback == softsig = tcb /\ softsig <= 1
MutexIsCallback == (mutex # "none") <=> (\E w \in Setters : pc[w] = "incb" /\ mutex = w)
Proj == [pc |-> pc, saw |-> saw, look |-> look, out |-> out, incache |-> incache, cb |-> cb, ecb |-> ecb,
         mutex |-> mutex, softsig |-> softsig, tcb |-> tcb, hist |-> hist]
EmitEdge == PrintT(ToJson([from |-> Proj, act |-> act', to |-> Proj', lvl |-> TLCGet("level")]))
EmitInit == TLCGet("level") > 1 \/ PrintT(ToJson([init |-> Proj]))
=============================================================================
