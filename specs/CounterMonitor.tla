-------------------------- MODULE CounterMonitor --------------------------
(* the recorded locked increments of real processes, in the order the lock was held *)
EXTENDS Counter, IOUtils
VARIABLES tid, l
Obs == JsonDeserialize(IOEnv.OBS_FILE)
MonInit == tid \in 1..Len(Obs) /\ l = 1 /\ val = Obs[tid][1].state.val /\ act = Obs[tid][1].act
MonNext == /\ l < Len(Obs[tid]) /\ l' = l + 1 /\ tid' = tid
           /\ val' = Obs[tid][l + 1].state.val /\ act' = Obs[tid][l + 1].act
FinalIsCount == (l = Len(Obs[tid])) => val = Len(Obs[tid]) - 1
=============================================================================
