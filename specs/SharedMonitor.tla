--------------------------- MODULE SharedMonitor ---------------------------
EXTENDS Shared, IOUtils
VARIABLES tid, l
Obs == JsonDeserialize(IOEnv.OBS_FILE)
RECURSIVE Flat(_)
Flat(f) == IF f = <<>> THEN <<>> ELSE f[1][2] \o Flat(Tail(f))
MonInit == /\ tid \in 1..Len(Obs) /\ l = 1
           /\ LET o == Obs[tid][1].state IN
              /\ arenas = o.arenas /\ fl = Flat(o.fl) /\ live = ToSet(o.live) /\ reqs = {}
              /\ pend = o.pend /\ nsize = o.nsize /\ mem = o.mem /\ objs = ToSet(o.objs) /\ cnt = 0
              /\ act = Obs[tid][1].act
MonNext == /\ l < Len(Obs[tid]) /\ l' = l + 1 /\ tid' = tid
           /\ LET o == Obs[tid][l + 1].state IN
              /\ arenas' = o.arenas /\ fl' = Flat(o.fl) /\ live' = ToSet(o.live) /\ reqs' = {}
              /\ pend' = o.pend /\ nsize' = o.nsize /\ mem' = o.mem /\ objs' = ToSet(o.objs)
              /\ cnt' = 0 /\ act' = Obs[tid][l + 1].act
=============================================================================
