----------------------------- MODULE Shutdown -----------------------------
(* What an outside observer may see of Pool.close()+join() (C07) and Pool.terminate()   *)
(* (C08, pool side) on real pools with real worker processes: one record per scenario,   *)
(* taken after the call returned (or after the driver's bounded wait for it ran out).    *)
(*   o.kind       "close_join" | "terminate"                                             *)
(*   o.returned   the call came back within the driver's bound (45 s / 15 s)             *)
(*   o.secs10     how long it took, tenths of a second                                   *)
(*   o.unresolved jobs submitted before the call that are not resolved with their own     *)
(*                result; o.wrong: resolved with something else                           *)
(*   o.alive      worker processes of the pool still existing (not even as zombies)       *)
(*   o.threads    supervisor / task-feeder / result threads still running                 *)
(*   o.refused    a job offered after close() was not accepted                            *)
(*   o.intact     results delivered before terminate() are still there and unchanged      *)
(*   o.again_ok   a second terminate() returned                                           *)
(*   o.exit_callbacks / o.nworkers_seen  exit callbacks that ran / worker processes       *)
(*   o.settled    every worker was inside a task (or the scenario is the idle one) when    *)
(*                terminate() was called                                                   *)
EXTENDS Integers, Sequences, TLC, Json, IOUtils
CONSTANTS GuardTenths,       \* a join that takes this long has waited out a worker's 30 s guard
          TermTenths,        \* bound for terminate()
          TolMapCredit,      \* known finding F6: a map credits the wrong worker's counter -> 30 s join
          TolQuotaAfterClose,\* known finding F8: no supervision after close(): with a task quota queued jobs never run
          TolExitRace        \* known finding F17: TERM arriving inside _do_exit interrupts the exit callback
VARIABLES tid
Obs == JsonDeserialize(IOEnv.OBS_FILE)
o == Obs[tid]
sc == o.scenario
MonInit == tid \in 1..Len(Obs)
MonNext == UNCHANGED tid

IsCJ == o.kind = "close_join"
IsT == o.kind = "terminate"
HasMap == IsCJ /\ \E i \in 1..Len(sc.mix) : sc.mix[i] \in {"map", "imap"}
HasQuota == IsCJ /\ sc.quota # 0
(* C07 *)
JoinReturns == IsCJ => (o.returned \/ (TolMapCredit /\ HasMap /\ sc.procs >= 3))    \* 3 x 30 s guard > the driver's bound
DrainsAll == (IsCJ /\ o.returned) => ((o.unresolved = 0 /\ o.wrong = 0) \/ (TolQuotaAfterClose /\ HasQuota /\ o.wrong = 0))
NoGuardWait == (IsCJ /\ o.returned) => (o.secs10 < GuardTenths \/ (TolMapCredit /\ HasMap /\ sc.procs >= 2))
(* (F6 needs a second worker: with one worker the first acknowledger *is* the sender) *)
NothingLeftBehind == (IsCJ /\ o.returned) => (o.alive = 0 /\ o.threads = 0)
ClosedRefuses == IsCJ => o.refused
(* C08 *)
TerminateReturns == IsT => (o.returned /\ o.secs10 <= TermTenths /\ o.again_ok)
NoWorkerSurvives == (IsT /\ o.returned) => (o.alive = 0 /\ o.threads = 0)
ResultsIntact == IsT => o.intact
ExitCallbacksRan == (IsT /\ o.returned) => (o.exit_callbacks >= o.nworkers_seen
                                             \/ (TolExitRace /\ sc.kind = "terminate" /\ (sc.situation = "idle" \/ ~o.settled)))
=============================================================================
