-------------------------------- MODULE Mgr --------------------------------
(* billiard.managers (C20): the server's table of shared objects with reference    *)
(* counts, and the proxies that clients hold.  A referent must stay in the server   *)
(* while at least one proxy to it exists anywhere, and be disposed of once the last  *)
(* one is released; operations through a proxy act on the referent (an abstract      *)
(* list: its length) atomically; only exposed methods may be called.                 *)
EXTENDS Integers, Sequences, FiniteSets, TLC, Json

CONSTANTS Clients,      \* client ids (processes / threads holding proxies)
          MaxObjs,      \* referents ever created
          MaxProxies,   \* proxies alive at once
          MaxLen,       \* list length bound
          MaxSer,       \* proxies ever made (bounds the behaviours explored)
          FineCreate    \* BOOLEAN: creation as its three steps (server create with a temporary
                        \* reference, proxy incref, release of the temporary reference)

VARIABLES objs,         \* referents in the server: set of ids 1..
          ref,          \* [id -> refcount] for ids in objs
          len,          \* [id -> abstract value: length of the list]
          nobj,         \* ids handed out so far
          prox,         \* live proxies: set of <<client, id, serial>>
          nprox,
          pend,         \* FineCreate: creations in flight: set of <<client, id, stage>>
          last,         \* reply to the last call: <<kind, value>>
          act
vars == <<objs, ref, len, nobj, prox, nprox, pend, last, act>>
View == <<objs, ref, len, nobj, prox, nprox, pend, last>>

Init == /\ objs = {} /\ ref = <<>> /\ len = <<>> /\ nobj = 0 /\ prox = {} /\ nprox = 0 /\ pend = {}
        /\ last = <<"none", 0>> /\ act = [name |-> "Init"]

Grow(f, o, v) == [x \in (DOMAIN f) \cup {o} |-> IF x = o THEN v ELSE f[x]]
Dec(o) == IF ref[o] = 1 THEN /\ objs' = objs \ {o}
                             /\ ref' = [x \in (DOMAIN ref) \ {o} |-> ref[x]]
                             /\ len' = [x \in (DOMAIN len) \ {o} |-> len[x]]
          ELSE /\ ref' = [ref EXCEPT ![o] = ref[o] - 1] /\ UNCHANGED <<objs, len>>

Create(c) ==        \* manager.list(): the whole of it, seen from outside
    /\ ~FineCreate /\ nobj < MaxObjs /\ Cardinality(prox) < MaxProxies /\ nprox < MaxSer
    /\ LET o == nobj + 1 IN
        /\ nobj' = o /\ objs' = objs \cup {o} /\ ref' = Grow(ref, o, 1) /\ len' = Grow(len, o, 0)
        /\ prox' = prox \cup {<<c, o, nprox + 1>>} /\ nprox' = nprox + 1
        /\ act' = [name |-> "Create", c |-> c, o |-> o]
    /\ last' = <<"created", nobj + 1>> /\ UNCHANGED pend

(* the three steps, with other clients free to act in between *)
SrvCreate(c) ==
    /\ FineCreate /\ nobj < MaxObjs /\ Cardinality(prox) + Cardinality(pend) < MaxProxies /\ nprox + Cardinality(pend) < MaxSer
    /\ LET o == nobj + 1 IN
        /\ nobj' = o /\ objs' = objs \cup {o} /\ ref' = Grow(ref, o, 1) /\ len' = Grow(len, o, 0)
        /\ pend' = pend \cup {<<c, o, "made">>}
        /\ act' = [name |-> "SrvCreate", c |-> c, o |-> o]
    /\ UNCHANGED <<prox, nprox, last>>
ProxyIncref(c, o) ==
    /\ <<c, o, "made">> \in pend
    /\ ref' = [ref EXCEPT ![o] = ref[o] + 1]
    /\ prox' = prox \cup {<<c, o, nprox + 1>>} /\ nprox' = nprox + 1
    /\ pend' = (pend \ {<<c, o, "made">>}) \cup {<<c, o, "held">>}
    /\ act' = [name |-> "ProxyIncref", c |-> c, o |-> o]
    /\ UNCHANGED <<objs, len, nobj, last>>
CreatorDecref(c, o) ==
    /\ <<c, o, "held">> \in pend
    /\ Dec(o) /\ pend' = pend \ {<<c, o, "held">>}
    /\ act' = [name |-> "CreatorDecref", c |-> c, o |-> o]
    /\ UNCHANGED <<nobj, prox, nprox, last>>

Share(p, c2) ==     \* a proxy is pickled to another client, which rebuilds it (incref) while
                    \* the sender still holds its own
    /\ p \in prox /\ c2 \in Clients /\ c2 # p[1] /\ Cardinality(prox) < MaxProxies /\ nprox < MaxSer
    /\ ref' = [ref EXCEPT ![p[2]] = ref[p[2]] + 1]
    /\ prox' = prox \cup {<<c2, p[2], nprox + 1>>} /\ nprox' = nprox + 1
    /\ act' = [name |-> "Share", p |-> p, c |-> c2]
    /\ UNCHANGED <<objs, len, nobj, pend, last>>

Drop(p) ==          \* a proxy is released: decref, dispose of the referent at zero
    /\ p \in prox
    /\ prox' = prox \ {p} /\ Dec(p[2])
    /\ act' = [name |-> "Drop", p |-> p]
    /\ UNCHANGED <<nobj, nprox, pend, last>>

Call(p, op) ==      \* one operation through a proxy
    /\ p \in prox /\ op \in {"append", "pop", "len", "getitem_bad", "hidden"}
    /\ LET o == p[2] IN
       CASE op = "append" -> /\ len[o] < MaxLen /\ len' = [len EXCEPT ![o] = len[o] + 1]
                             /\ last' = <<"return", 0>>
         [] op = "pop"    -> IF len[o] > 0 THEN len' = [len EXCEPT ![o] = len[o] - 1] /\ last' = <<"return", len[o]>>
                                           ELSE len' = len /\ last' = <<"error", 0>>   \* IndexError re-raised
         [] op = "len"    -> len' = len /\ last' = <<"return", len[o]>>
         [] op = "getitem_bad" -> len' = len /\ last' = <<"error", 0>>
         [] op = "hidden" -> len' = len /\ last' = <<"refused", 0>>          \* not an exposed method
    /\ act' = [name |-> "Call", p |-> p, op |-> op]
    /\ UNCHANGED <<objs, ref, nobj, prox, nprox, pend>>

Next == \/ \E c \in Clients : Create(c) \/ SrvCreate(c)
        \/ \E c \in Clients, o \in 1..MaxObjs : ProxyIncref(c, o) \/ CreatorDecref(c, o)
        \/ \E p \in prox, c2 \in Clients : Share(p, c2)
        \/ \E p \in prox : Drop(p)
        \/ \E p \in prox, op \in {"append", "pop", "len", "getitem_bad", "hidden"} : Call(p, op)
Spec == Init /\ [][Next]_vars

(* ========================================================================= *)
Holders(o) == Cardinality({p \in prox : p[2] = o}) + Cardinality({q \in pend : q[2] = o /\ q[3] \in {"made", "held"}})
              - Cardinality({q \in pend : q[2] = o /\ q[3] = "held"}) + Cardinality({q \in pend : q[2] = o /\ q[3] = "held"})
(* the count is exactly the number of live proxies plus temporary creation references *)
RefExact == \A o \in objs : ref[o] = Cardinality({p \in prox : p[2] = o}) + Cardinality({q \in pend : q[2] = o})
(* alive while a proxy exists, gone once the last is released *)
AliveWhileReferenced == \A p \in prox : p[2] \in objs
DisposedWhenUnreferenced == \A o \in objs : ref[o] >= 1
NoLeak == \A o \in 1..nobj : (o \in objs) <=> (\E p \in prox : p[2] = o) \/ (\E q \in pend : q[2] = o)
DomainsAgree == DOMAIN ref = objs /\ DOMAIN len = objs
HiddenRefused == [][(act'.name = "Call" /\ act'.op = "hidden") => (last'[1] = "refused" /\ len' = len)]_vars

Proj == [objs |-> objs, ref |-> [o \in 1..nobj |-> IF o \in objs THEN ref[o] ELSE 0],
         len |-> [o \in 1..nobj |-> IF o \in objs THEN len[o] ELSE -1],
         nobj |-> nobj, prox |-> prox, nprox |-> nprox, last |-> last]
EmitEdge == PrintT(ToJson([from |-> Proj, act |-> act', to |-> Proj', lvl |-> TLCGet("level")]))
EmitInit == TLCGet("level") > 1 \/ PrintT(ToJson([init |-> Proj]))
=============================================================================
