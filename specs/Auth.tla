------------------------------- MODULE Auth -------------------------------
(* Connection authentication (C18): billiard.connection.deliver_challenge /         *)
(* answer_challenge as used by Listener.accept (deliver, then answer) and Client     *)
(* (answer, then deliver), over an in-order message channel, against an honest peer   *)
(* holding any key or a hostile peer that may send, at each step, anything it can     *)
(* build: digests under keys it knows, digests and challenges it has seen before      *)
(* (replay), WELCOME, FAILURE, garbage, an oversized message, or close.              *)
(* digest(k, c) is abstract and injective: <<"dig", k, c>>.  Challenges are tokens     *)
(* numbered in the order they are drawn; freshness = never drawing the same twice.    *)
EXTENDS Integers, Sequences, FiniteSets, TLC, Json

CONSTANTS Keys,        \* e.g. {"k1", "k2"}: the honest parties' keys are chosen from here
          HostileKeys, \* keys the hostile peer knows (never the honest party's key)
          Modes,       \* subset of {"honest", "hostile_client", "hostile_listener"}
          Sessions     \* number of consecutive connections (2 shows replay + freshness)

VARIABLES mode, kl, kc,     \* scenario: who is hostile, listener key, client key
          sess,
          lpc, cpc,         \* program counters of the listener side and the client side
          l2c, c2l,         \* channels: sequences of messages
          lclosed, cclosed, \* a side has closed its end
          lres, cres,       \* results per session: sequences of outcomes
          nchal,            \* challenges drawn so far (tokens 1..nchal)
          lchal, cchal,     \* the challenge each honest side drew in this session
          nh,               \* hostile moves made in this session
          act

vars == <<mode, kl, kc, sess, lpc, cpc, l2c, c2l, lclosed, cclosed, lres, cres, nchal, lchal, cchal,
          nh, act>>
View == <<mode, kl, kc, sess, lpc, cpc, l2c, c2l, lclosed, cclosed, lres, cres, nchal, lchal, cchal,
          nh>>

ToSetSeq(s) == {s[i] : i \in 1..Len(s)}
Dig(k, c) == <<"dig", k, c>>
Chal(c) == <<"chal", c>>
WELCOME == <<"welcome">>
FAILURE == <<"failure">>
JUNK == <<"junk">>
BIG == <<"big">>          \* longer than the 256-byte limit of recv_bytes
EMPTY == <<"empty">>      \* a message of no bytes at all

Init == /\ mode \in Modes /\ kl \in Keys /\ kc \in Keys
        /\ (mode = "hostile_client" => kl \notin HostileKeys)
        /\ (mode = "hostile_listener" => kc \notin HostileKeys)
        /\ sess = 1 /\ lpc = "L1" /\ cpc = "C1" /\ l2c = <<>> /\ c2l = <<>>
        /\ lclosed = FALSE /\ cclosed = FALSE /\ lres = <<>> /\ cres = <<>>
        /\ nchal = 0 /\ lchal = 0 /\ cchal = 0 /\ nh = 0
        /\ act = [name |-> "Init"]

HonestL == mode \in {"honest", "hostile_client"}
HonestC == mode \in {"honest", "hostile_listener"}

LDone(out) == /\ lpc' = "done" /\ lres' = Append(lres, out) /\ lclosed' = (out # "ok")
CDone(out) == /\ cpc' = "done" /\ cres' = Append(cres, out) /\ cclosed' = (out # "ok")

(* ---- honest listener: deliver_challenge, then answer_challenge ----------------- *)
L1 == /\ HonestL /\ lpc = "L1"
      /\ nchal' = nchal + 1 /\ lchal' = nchal + 1
      /\ l2c' = Append(l2c, Chal(nchal + 1)) /\ lpc' = "L2"
      /\ act' = [name |-> "L", pc |-> "L1"]
      /\ UNCHANGED <<mode, kl, kc, sess, cpc, c2l, lclosed, cclosed, lres, cres, cchal, nh>>

LRecv(p) == HonestL /\ lpc = p /\ (c2l # <<>> \/ cclosed)

L2 == /\ LRecv("L2")
      /\ IF c2l = <<>> THEN /\ LDone("eof") /\ UNCHANGED <<c2l, l2c>>
         ELSE /\ c2l' = Tail(c2l)
              /\ IF Head(c2l) = BIG THEN LDone("toolong") /\ UNCHANGED l2c
                 ELSE IF Head(c2l) = Dig(kl, lchal)
                   THEN /\ l2c' = Append(l2c, WELCOME) /\ lpc' = "L3" /\ UNCHANGED <<lres, lclosed>>
                   ELSE /\ l2c' = Append(l2c, FAILURE) /\ LDone("autherr")
      /\ act' = [name |-> "L", pc |-> "L2"]
      /\ UNCHANGED <<mode, kl, kc, sess, cpc, cclosed, cres, nchal, lchal, cchal, nh>>

L3 == /\ LRecv("L3")
      /\ IF c2l = <<>> THEN /\ LDone("eof") /\ UNCHANGED <<c2l, l2c>>
         ELSE /\ c2l' = Tail(c2l)
              /\ IF Head(c2l) = BIG THEN LDone("toolong") /\ UNCHANGED l2c
                 ELSE IF Head(c2l)[1] = "chal"
                   THEN /\ l2c' = Append(l2c, Dig(kl, Head(c2l)[2])) /\ lpc' = "L4"
                        /\ UNCHANGED <<lres, lclosed>>
                   ELSE /\ LDone("asserterr") /\ UNCHANGED l2c      \* not a challenge message
      /\ act' = [name |-> "L", pc |-> "L3"]
      /\ UNCHANGED <<mode, kl, kc, sess, cpc, cclosed, cres, nchal, lchal, cchal, nh>>

L4 == /\ LRecv("L4")
      /\ IF c2l = <<>> THEN /\ LDone("eof") /\ UNCHANGED c2l
         ELSE /\ c2l' = Tail(c2l)
              /\ IF Head(c2l) = BIG THEN LDone("toolong")
                 ELSE IF Head(c2l) = WELCOME THEN LDone("ok") ELSE LDone("autherr")
      /\ act' = [name |-> "L", pc |-> "L4"]
      /\ UNCHANGED <<mode, kl, kc, sess, cpc, l2c, cclosed, cres, nchal, lchal, cchal, nh>>

(* ---- honest client: answer_challenge, then deliver_challenge --------------------- *)
CRecv(p) == HonestC /\ cpc = p /\ (l2c # <<>> \/ lclosed)

C1 == /\ CRecv("C1")
      /\ IF l2c = <<>> THEN /\ CDone("eof") /\ UNCHANGED <<l2c, c2l>>
         ELSE /\ l2c' = Tail(l2c)
              /\ IF Head(l2c) = BIG THEN CDone("toolong") /\ UNCHANGED c2l
                 ELSE IF Head(l2c)[1] = "chal"
                   THEN /\ c2l' = Append(c2l, Dig(kc, Head(l2c)[2])) /\ cpc' = "C2"
                        /\ UNCHANGED <<cres, cclosed>>
                   ELSE /\ CDone("asserterr") /\ UNCHANGED c2l
      /\ act' = [name |-> "C", pc |-> "C1"]
      /\ UNCHANGED <<mode, kl, kc, sess, lpc, lclosed, lres, nchal, lchal, cchal, nh>>

C2 == /\ CRecv("C2")     \* on WELCOME the client goes straight on to deliver its own challenge
      /\ IF l2c = <<>> THEN /\ CDone("eof") /\ UNCHANGED <<l2c, c2l, nchal, cchal>>
         ELSE /\ l2c' = Tail(l2c)
              /\ IF Head(l2c) = BIG THEN CDone("toolong") /\ UNCHANGED <<c2l, nchal, cchal>>
                 ELSE IF Head(l2c) = WELCOME
                   THEN /\ nchal' = nchal + 1 /\ cchal' = nchal + 1
                        /\ c2l' = Append(c2l, Chal(nchal + 1)) /\ cpc' = "C4"
                        /\ UNCHANGED <<cres, cclosed>>
                 ELSE CDone("autherr") /\ UNCHANGED <<c2l, nchal, cchal>>
      /\ act' = [name |-> "C", pc |-> "C2"]
      /\ UNCHANGED <<mode, kl, kc, sess, lpc, lclosed, lres, lchal, nh>>

C4 == /\ CRecv("C4")
      /\ IF l2c = <<>> THEN /\ CDone("eof") /\ UNCHANGED <<l2c, c2l>>
         ELSE /\ l2c' = Tail(l2c)
              /\ IF Head(l2c) = BIG THEN CDone("toolong") /\ UNCHANGED c2l
                 ELSE IF Head(l2c) = Dig(kc, cchal)
                   THEN /\ c2l' = Append(c2l, WELCOME) /\ CDone("ok")
                   ELSE /\ c2l' = Append(c2l, FAILURE) /\ CDone("autherr")
      /\ act' = [name |-> "C", pc |-> "C4"]
      /\ UNCHANGED <<mode, kl, kc, sess, lpc, lclosed, lres, nchal, lchal, cchal, nh>>

(* ---- hostile peer ------------------------------------------------------------------ *)
(* it reads everything sent to it, and may send anything it can build *)
(* Over-approximation of what it can build: digests under its own keys for any challenge, *)
(* and -- by replay -- digests under the honest key for every challenge other than the     *)
(* fresh ones of this connection (0 is a challenge of its own making).                     *)
HonestKey == IF mode = "hostile_client" THEN kl ELSE kc
CanSay == {WELCOME, FAILURE, JUNK, BIG, EMPTY}
          \cup {Dig(k, c) : k \in HostileKeys, c \in 0..nchal}
          \cup {Dig(HonestKey, c) : c \in (0..nchal) \ {lchal, cchal}}
          \cup {Chal(c) : c \in 0..nchal}

HSend(m) ==
    /\ mode # "honest" /\ nh < 3 /\ m \in CanSay
    /\ IF mode = "hostile_client"
         THEN /\ ~cclosed /\ c2l' = Append(c2l, m) /\ l2c' = <<>> /\ UNCHANGED <<lclosed, cclosed>>
         ELSE /\ ~lclosed /\ l2c' = Append(l2c, m) /\ c2l' = <<>> /\ UNCHANGED <<lclosed, cclosed>>
    /\ nh' = nh + 1
    /\ act' = [name |-> "HSend", m |-> m]
    /\ UNCHANGED <<mode, kl, kc, sess, lpc, cpc, lres, cres, nchal, lchal, cchal>>

HClose ==
    /\ mode # "honest"
    /\ IF mode = "hostile_client" THEN ~cclosed /\ cclosed' = TRUE /\ UNCHANGED lclosed
                                  ELSE ~lclosed /\ lclosed' = TRUE /\ UNCHANGED cclosed
    /\ act' = [name |-> "HClose"]
    /\ UNCHANGED <<mode, kl, kc, sess, lpc, cpc, l2c, c2l, lres, cres, nchal, lchal, cchal, nh>>

(* next connection between the same parties *)
SessionOver == /\ (HonestL => lpc = "done") /\ (HonestC => cpc = "done")
NextSession ==
    /\ SessionOver /\ sess < Sessions
    /\ sess' = sess + 1 /\ lpc' = "L1" /\ cpc' = "C1" /\ l2c' = <<>> /\ c2l' = <<>>
    /\ lclosed' = FALSE /\ cclosed' = FALSE /\ lchal' = 0 /\ cchal' = 0 /\ nh' = 0
    /\ act' = [name |-> "NextSession"]
    /\ UNCHANGED <<mode, kl, kc, lres, cres, nchal>>

Next == L1 \/ L2 \/ L3 \/ L4 \/ C1 \/ C2 \/ C4 \/ (\E m \in CanSay : HSend(m)) \/ HClose
        \/ NextSession
Spec == Init /\ [][Next]_vars

(* ========================================================================= *)
(* honest pair: both succeed iff same key; different keys: both refuse *)
MutualExact == mode = "honest" =>
    /\ \A i \in 1..Len(lres) : (lres[i] = "ok") => kl = kc
    /\ \A i \in 1..Len(cres) : (cres[i] = "ok") => kl = kc
    /\ (kl # kc) => ((\A i \in 1..Len(lres) : lres[i] = "autherr") /\ (\A i \in 1..Len(cres) : cres[i] = "autherr"))
SameKeySucceeds == (mode = "honest" /\ kl = kc) =>
    (\A i \in 1..Len(lres) : lres[i] = "ok") /\ (\A i \in 1..Len(cres) : cres[i] = "ok")
(* a peer without the key is never handed a connection *)
HostileRefused == /\ (mode = "hostile_client" => \A i \in 1..Len(lres) : lres[i] # "ok")
                  /\ (mode = "hostile_listener" => \A i \in 1..Len(cres) : cres[i] # "ok")
(* only the digest of *this* challenge under *this* key is accepted *)
OnlyCorrectDigest == [][(act'.name = "L" /\ act'.pc = "L2" /\ lpc' = "L3") =>
                            (c2l # <<>> /\ Head(c2l) = Dig(kl, lchal))]_vars
(* each connection uses a fresh challenge (tokens are numbered by first appearance) *)
FreshChallenges == [][/\ ((act'.name = "L" /\ act'.pc = "L1") => (lchal' = nchal + 1 /\ nchal' = nchal + 1))
                      /\ ((act'.name = "C" /\ act'.pc = "C2" /\ cpc' = "C4") => (cchal' = nchal + 1 /\ nchal' = nchal + 1))]_vars

Proj == [mode |-> mode, kl |-> kl, kc |-> kc, sess |-> sess, lpc |-> lpc, cpc |-> cpc, l2c |-> l2c,
         c2l |-> c2l, lclosed |-> lclosed, cclosed |-> cclosed, lres |-> lres, cres |-> cres,
         nchal |-> nchal, lchal |-> lchal, cchal |-> cchal, nh |-> nh]
EmitEdge == PrintT(ToJson([from |-> Proj, act |-> act', to |-> Proj', lvl |-> TLCGet("level")]))
EmitInit == TLCGet("level") > 1 \/ PrintT(ToJson([init |-> Proj]))
=============================================================================
