---------------------------- MODULE CondMonitor ----------------------------
(* Observed executions of the real Condition/Event: the observable variables are bound  *)
(* to what was recorded, the ghost observers are recomputed by Cond's own definitions.  *)
EXTENDS Cond, IOUtils
VARIABLES tid, l
Obs == JsonDeserialize(IOEnv.OBS_FILE)
Fn(s) == [t \in Threads |-> IF t <= Len(s) THEN s[t] ELSE <<>>]
FnP(s) == [t \in Threads |-> IF t <= Len(s) THEN s[t] ELSE <<"none", "none", FALSE>>]
MonInit == /\ tid \in 1..Len(Obs) /\ l = 1
           /\ LET o == Obs[tid][1].state IN
              /\ prog = Fn(o.prog) /\ hist = Fn(o.hist) /\ pend = FnP(o.pend) /\ lock = o.lock
              /\ sl = o.sl /\ wk = o.wk /\ ws = o.ws /\ flag = o.flag /\ ret = Fn(o.ret) /\ err = o.err
              /\ pc = [t \in Threads |-> "idle"] /\ cont = [t \in Threads |-> "rel"]
              /\ got = [t \in Threads |-> FALSE] /\ n = [t \in Threads |-> 0]
              /\ owed = [t \in Threads |-> {}] /\ woke = [t \in Threads |-> 0]
              /\ solo = [t \in Threads |-> 0] /\ act = [name |-> "Init", t |-> 0]
MonNext == /\ l < Len(Obs[tid]) /\ l' = l + 1 /\ tid' = tid
           /\ LET o == Obs[tid][l + 1].state IN
              /\ prog' = Fn(o.prog) /\ hist' = Fn(o.hist) /\ pend' = FnP(o.pend) /\ lock' = o.lock
              /\ sl' = o.sl /\ wk' = o.wk /\ ws' = o.ws /\ flag' = o.flag /\ ret' = Fn(o.ret)
              /\ err' = o.err /\ act' = Obs[tid][l + 1].act
           /\ UNCHANGED <<pc, cont, got, n>>
           /\ owed' = OwedNext /\ woke' = WokeNext /\ solo' = SoloNext
=============================================================================
