------------------------------ MODULE ConnObs ------------------------------
(* Observations of real connections (os.pipe and socket pairs) between two processes   *)
(* (binding B for C13): what the receiver got for each message, in order.               *)
(*   o.results   <<m, outcome>>, outcome: "ok" (content compared) | "corrupt" | "eof"    *)
(*               | "eof_in_message" | "tooshort" | "oserror" | "hung"                     *)
(*   o.kill_after  the sender was killed while blocked inside message kill_after + 1      *)
(*   o.tail      what a receive after the last message gave: "eof" expected               *)
EXTENDS Integers, Sequences, TLC, Json, IOUtils
VARIABLES tid
Obs == JsonDeserialize(IOEnv.OBS_FILE)
o == Obs[tid]
MonInit == tid \in 1..Len(Obs)
MonNext == UNCHANGED tid
R == o.results
Killed == o.kill_after > 0 \/ (o.kill_after = 0 /\ o.tail = "none" /\ Len(R) < o.n)
(* every message arrives, intact, in order *)
InOrderIntact == \A i \in 1..Len(R) : R[i][1] = i /\ (R[i][2] = "ok" \/ (i = Len(R) /\ i < o.n + 1))
AllDelivered == (o.tail # "none") => (Len(R) = o.n /\ \A i \in 1..Len(R) : R[i][2] = "ok")
NothingInvented == \A i \in 1..Len(R) : R[i][2] \notin {"corrupt", "tooshort", "hung", "oserror"}
(* a sender that lives to send everything and then closes: every message is delivered -- no  *)
(* end of stream is reported while the peer is still open and has more to say                 *)
NoEarlyEnd == (~o.killed) => (Len(R) = o.n /\ \A i \in 1..Len(R) : R[i][2] = "ok")
(* a clean close after the last message is an EOFError, nothing else *)
CleanEnd == (o.tail # "none") => o.tail = "eof"
(* a sender that dies inside a message: every complete message before it is delivered, the torn
   one is reported as an error (end of file), never delivered, and the receiver does not hang *)
TornReported == (o.tail = "none") =>
    /\ Len(R) >= 1
    /\ \A i \in 1..(Len(R) - 1) : R[i][2] = "ok"
    /\ R[Len(R)][2] \in {"eof", "eof_in_message"}
=============================================================================
