------------------------------- MODULE Heap -------------------------------
(* billiard.heap.Heap (C14): malloc / free over mmap'ed arenas, with frees that find  *)
(* the heap lock taken (issued by the garbage collector, or by another thread, while  *)
(* a malloc or free is in progress) being deferred to a pending list.                  *)
(*                                                                                      *)
(* Every call that gets the lock is one action; the frees that arrive while it holds   *)
(* the lock are parameters of that action:                                             *)
(*    gc1 = arriving after the lock is taken and before the pending list is drained    *)
(*    gc2 = arriving after the drain (they stay pending until the next locked call)    *)
(* A block is <<arena, start, stop>>.  The free list keeps, per length, the order in   *)
(* which the code keeps it (_len_to_seq[length] is used as a stack).                   *)
EXTENDS Integers, Sequences, FiniteSets, SequencesExt, TLC, Json

CONSTANTS Align,       \* Heap._alignment (8 in production)
          Page,        \* mmap.PAGESIZE
          InitSize,    \* Heap(size=...)
          Sizes,       \* request sizes explored
          MaxLive,     \* bound on simultaneously live blocks
          MaxArenas,   \* bound on arenas
          MaxGC        \* how many frees may arrive during one locked call

VARIABLES arenas,      \* sequence of arena lengths
          fl,          \* free blocks, in insertion order (per-length suborder is what matters)
          live,        \* allocated blocks (incl. those waiting in pend)
          reqs,        \* set of <<block, requested size>> for live blocks
          pend,        \* _pending_free_blocks
          nsize,       \* Heap._size: length hint for the next arena
          act

vars == <<arenas, fl, live, reqs, pend, nsize, act>>

Roundup(n, a) == ((n + a - 1) \div a) * a
Max2(a, b) == IF a > b THEN a ELSE b
Len3(b) == b[3] - b[2]
RemoveB(s, b) == SelectSeq(s, LAMBDA x : x # b)

Init == /\ arenas = <<>> /\ fl = <<>> /\ live = {} /\ reqs = {} /\ pend = <<>>
        /\ nsize = InitSize /\ act = [name |-> "Init"]

(* Heap._free: merge with the free neighbours, file under the merged length *)
FreeOne(f, b) ==
    LET prevs == {x \in ToSet(f) : x[1] = b[1] /\ x[3] = b[2]}
        nexts == {x \in ToSet(f) : x[1] = b[1] /\ x[2] = b[3]}
        s == IF prevs = {} THEN b[2] ELSE (CHOOSE x \in prevs : TRUE)[2]
        e == IF nexts = {} THEN b[3] ELSE (CHOOSE x \in nexts : TRUE)[3]
        f1 == SelectSeq(f, LAMBDA x : x \notin prevs /\ x \notin nexts)
    IN Append(f1, <<b[1], s, e>>)

(* _free_pending_blocks: pop from the end until empty *)
RECURSIVE Drain(_, _)
Drain(f, p) == IF p = <<>> THEN f ELSE Drain(FreeOne(f, p[Len(p)]), SubSeq(p, 1, Len(p) - 1))

(* Heap._malloc: smallest sufficient length, most recently filed block of that length *)
Fits(f, size) == {x \in ToSet(f) : Len3(x) >= size}
BestLen(f, size) == CHOOSE l \in {Len3(x) : x \in Fits(f, size)} :
                        \A x \in Fits(f, size) : l <= Len3(x)
LastOfLen(f, l) == LET idxs == {i \in 1..Len(f) : Len3(f[i]) = l}
                   IN f[CHOOSE i \in idxs : \A k \in idxs : k <= i]

SeqOfSet(S) == SetToSeq(S)

(* frees that arrive while the lock is held are appended to pend in the given order *)
MallocWith(size, gc1, gc2, label) ==
    /\ size \in Sizes
    /\ Cardinality(live) - Len(pend) - Len(gc1) < MaxLive
    /\ LET p1 == pend \o gc1
           f1 == Drain(fl, p1)
           live1 == live \ ToSet(p1)
           rsize == Roundup(Max2(size, 1), Align)
           fits == Fits(f1, rsize)
           newArena == fits = {}
           alen == Roundup(Max2(nsize, rsize), Page)
           blk == IF newArena THEN <<Len(arenas) + 1, 0, alen>>
                  ELSE LastOfLen(f1, BestLen(f1, rsize))
           f2 == IF newArena THEN f1 ELSE RemoveB(f1, blk)
           got == <<blk[1], blk[2], blk[2] + rsize>>
           f3 == IF blk[2] + rsize < blk[3] THEN FreeOne(f2, <<blk[1], blk[2] + rsize, blk[3]>>) ELSE f2
       IN /\ newArena => Len(arenas) < MaxArenas
          /\ ToSet(gc2) \subseteq live1       \* gc2 frees concern blocks still live after the drain
          /\ arenas' = IF newArena THEN Append(arenas, alen) ELSE arenas
          /\ nsize' = IF newArena THEN nsize * 2 ELSE nsize
          /\ fl' = f3
          /\ live' = live1 \cup {got}
          /\ reqs' = {r \in reqs : r[1] \in live1} \cup {<<got, size>>}
          /\ pend' = gc2
          /\ act' = label @@ [got |-> got]

Malloc(size, gc1, gc2) ==
    MallocWith(size, gc1, gc2, [name |-> "Malloc", size |-> size, gc1 |-> gc1, gc2 |-> gc2])
MallocCore(size, label) == MallocWith(size, <<>>, <<>>, label)

Free(b, gc1, gc2) ==     \* free() that gets the lock
    /\ b \in live /\ b \notin ToSet(pend) /\ b \notin ToSet(gc1) /\ b \notin ToSet(gc2)
    /\ LET p1 == pend \o gc1
           f1 == Drain(fl, p1)
           live1 == live \ ToSet(p1)
       IN /\ ToSet(gc2) \subseteq (live1 \ {b})
          /\ fl' = FreeOne(f1, b)
          /\ live' = live1 \ {b}
          /\ reqs' = {r \in reqs : r[1] \in live1 \ {b}}
          /\ pend' = gc2
          /\ act' = [name |-> "Free", b |-> b, gc1 |-> gc1, gc2 |-> gc2]
    /\ UNCHANGED <<arenas, nsize>>

(* sequences (orders of arrival) of distinct not-yet-pending live blocks, length <= MaxGC *)
Freeable == live \ ToSet(pend)
GCSeqs == {<<>>} \cup {<<x>> : x \in Freeable}
          \cup (IF MaxGC >= 2 THEN {<<xy[1], xy[2]>> : xy \in {z \in Freeable \X Freeable : z[1] # z[2]}} ELSE {})

Next == \/ \E size \in Sizes, g1 \in GCSeqs, g2 \in GCSeqs :
              /\ ToSet(g1) \cap ToSet(g2) = {} /\ Len(g1) + Len(g2) <= MaxGC
              /\ Malloc(size, g1, g2)
        \/ \E b \in live, g1 \in GCSeqs, g2 \in GCSeqs :
              /\ ToSet(g1) \cap ToSet(g2) = {} /\ Len(g1) + Len(g2) <= MaxGC
              /\ Free(b, g1, g2)

Spec == Init /\ [][Next]_vars

(* ========================================================================= *)
FreeSet == ToSet(fl)
All == FreeSet \cup live
(* every arena is exactly tiled by live and free blocks, which are pairwise disjoint *)
Partition ==
    /\ Len(fl) = Cardinality(FreeSet)
    /\ \A x \in All : x[1] \in 1..Len(arenas) /\ 0 <= x[2] /\ x[2] < x[3] /\ x[3] <= arenas[x[1]]
    /\ \A x, y \in All : (x # y /\ x[1] = y[1]) => (x[3] <= y[2] \/ y[3] <= x[2])
    /\ FreeSet \cap live = {}
    /\ \A a \in 1..Len(arenas) :
         LET S == {x \in All : x[1] = a} IN
           /\ \E x \in S : x[2] = 0
           /\ \E x \in S : x[3] = arenas[a]
           /\ \A x \in S : x[3] = arenas[a] \/ \E y \in S : y[2] = x[3]
Aligned == \A x \in live : x[2] % Align = 0
LargeEnough == \A r \in reqs : Len3(r[1]) >= r[2] /\ r[1] \in live
Coalesced == \A x, y \in FreeSet : ~(x[1] = y[1] /\ x[3] = y[2])
PendingAreLive == ToSet(pend) \subseteq live
ArenaSizes == \A a \in 1..Len(arenas) : arenas[a] % Page = 0 /\ arenas[a] > 0
(* no new arena while an existing free extent (after the pending frees were merged in) is
   large enough; allocations come from the smallest sufficient extent *)
NoNeedlessArena == [][(act'.name = "Malloc" /\ Len(arenas') > Len(arenas)) =>
        LET f1 == Drain(fl, pend \o act'.gc1)
        IN Fits(f1, Roundup(Max2(act'.size, 1), Align)) = {}]_vars
BestFit == [][(act'.name = "Malloc" /\ Len(arenas') = Len(arenas)) =>
        LET f1 == Drain(fl, pend \o act'.gc1)
            rsize == Roundup(Max2(act'.size, 1), Align)
        IN \E x \in Fits(f1, rsize) : /\ x[1] = act'.got[1] /\ x[2] = act'.got[2]
                                      /\ \A y \in Fits(f1, rsize) : Len3(x) <= Len3(y)]_vars
FreedIsReusable == [][act'.name = "Free" => \E x \in ToSet(fl') : x[1] = act'.b[1] /\ x[2] <= act'.b[2]
                                                                   /\ act'.b[3] <= x[3]]_vars
PendingDrained == [][act'.name \in {"Malloc", "Free"} => pend' = act'.gc2]_vars

(* ---- binding ---------------------------------------------------------------- *)
Lens == {Len3(x) : x \in FreeSet}
SortedLens == SetToSortSeq(Lens, <)
FlProj == [i \in 1..Len(SortedLens) |->
             <<SortedLens[i], SelectSeq(fl, LAMBDA x : Len3(x) = SortedLens[i])>>]
View == <<arenas, FlProj, live, reqs, pend, nsize>>
Proj == [arenas |-> arenas, fl |-> FlProj, live |-> live, reqs |-> reqs, pend |-> pend,
         nsize |-> nsize, ok |-> TRUE]
EmitEdge == PrintT(ToJson([from |-> Proj, act |-> act', to |-> Proj', lvl |-> TLCGet("level")]))
EmitInit == TLCGet("level") > 1 \/ PrintT(ToJson([init |-> Proj]))
=============================================================================
