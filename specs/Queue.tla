------------------------------- MODULE Queue -------------------------------
(* billiard.queues.Queue / JoinableQueue (C16) at the granularity of the code's own    *)
(* synchronisation: the capacity semaphore, the process-local buffer, the feeder         *)
(* thread, the pipe (messages are atomic under the write lock), the read lock.           *)
(* One producer-side buffer/feeder per producer process (as after fork).                 *)
EXTENDS Integers, Sequences, FiniteSets, TLC

CONSTANTS Producers, Consumers,   \* sets of process ids
          ItemsPer,               \* items each producer puts: 1..ItemsPer
          MaxSize,                \* queue capacity
          Joinable,               \* BOOLEAN: JoinableQueue (unfinished-task counter, join)
          NonBlocking             \* BOOLEAN: producers use put(block=False), consumers get(block=False)

VARIABLES sem,        \* free slots (BoundedSemaphore)
          buf,        \* per producer: its process-local buffer (sequence of items)
          held,       \* per producer: the object its feeder thread is about to write, or <<>>
          pipe,       \* the shared pipe
          nput,       \* per producer: items put so far
          ppc,        \* per producer: "idle" | "acquired" (slot taken, about to append)
          cpc,        \* per consumer: "idle" | "got" (message read, slot not yet given back)
          cheld,      \* per consumer: the message it holds
          out,        \* every item in the order it was taken from the pipe
          gotby,      \* per consumer: what it returned
          fulls, empties,   \* refusals observed: <<who, waiting at that moment>>
          unfinished, \* JoinableQueue counter
          joined      \* join() has returned
vars == <<sem, buf, held, pipe, nput, ppc, cpc, cheld, out, gotby, fulls, empties, unfinished, joined>>

Item(p, k) == <<p, k>>
Init == /\ sem = MaxSize /\ buf = [p \in Producers |-> <<>>] /\ held = [p \in Producers |-> <<>>]
        /\ pipe = <<>> /\ nput = [p \in Producers |-> 0] /\ ppc = [p \in Producers |-> "idle"]
        /\ cpc = [c \in Consumers |-> "idle"] /\ cheld = [c \in Consumers |-> <<>>]
        /\ out = <<>> /\ gotby = [c \in Consumers |-> <<>>] /\ fulls = <<>> /\ empties = <<>>
        /\ unfinished = 0 /\ joined = FALSE

Waiting == Len(pipe) + Cardinality({p \in Producers : held[p] # <<>>})
           + (LET RECURSIVE S(_) S(ps) == IF ps = {} THEN 0 ELSE LET p == CHOOSE x \in ps : TRUE
                                                              IN Len(buf[p]) + S(ps \ {p})
              IN S(Producers))

P_Acquire(p) ==      \* put(): take a slot (blocks, or raises Full, when none is free)
    /\ ppc[p] = "idle" /\ nput[p] < ItemsPer
    /\ IF sem > 0 THEN /\ sem' = sem - 1 /\ ppc' = [ppc EXCEPT ![p] = "acquired"] /\ UNCHANGED fulls
       ELSE /\ NonBlocking /\ Len(fulls) < 2
            /\ fulls' = Append(fulls, <<p, Waiting + Cardinality({c \in Consumers : cpc[c] = "got"})
                                              + Cardinality({q \in Producers : ppc[q] = "acquired"})>>)
            /\ UNCHANGED <<sem, ppc>>
    /\ UNCHANGED <<buf, held, pipe, nput, cpc, cheld, out, gotby, empties, unfinished, joined>>
P_Append(p) ==       \* ... and hand the object to the feeder's buffer
    /\ ppc[p] = "acquired"
    /\ buf' = [buf EXCEPT ![p] = Append(buf[p], Item(p, nput[p] + 1))]
    /\ nput' = [nput EXCEPT ![p] = nput[p] + 1] /\ ppc' = [ppc EXCEPT ![p] = "idle"]
    /\ unfinished' = IF Joinable THEN unfinished + 1 ELSE unfinished
    /\ UNCHANGED <<sem, held, pipe, cpc, cheld, out, gotby, fulls, empties, joined>>
F_Pop(p) ==          \* feeder: popleft
    /\ held[p] = <<>> /\ buf[p] # <<>>
    /\ held' = [held EXCEPT ![p] = <<Head(buf[p])>>] /\ buf' = [buf EXCEPT ![p] = Tail(buf[p])]
    /\ UNCHANGED <<sem, pipe, nput, ppc, cpc, cheld, out, gotby, fulls, empties, unfinished, joined>>
F_Send(p) ==         \* feeder: write lock; send_bytes; unlock
    /\ held[p] # <<>>
    /\ pipe' = Append(pipe, held[p][1]) /\ held' = [held EXCEPT ![p] = <<>>]
    /\ UNCHANGED <<sem, buf, nput, ppc, cpc, cheld, out, gotby, fulls, empties, unfinished, joined>>
G_Recv(c) ==         \* get(): read lock; recv_bytes (or Empty when nothing is there)
    /\ cpc[c] = "idle"
    /\ IF pipe # <<>>
         THEN /\ cheld' = [cheld EXCEPT ![c] = <<Head(pipe)>>] /\ pipe' = Tail(pipe)
              /\ out' = Append(out, Head(pipe)) /\ cpc' = [cpc EXCEPT ![c] = "got"]
              /\ UNCHANGED empties
         ELSE /\ NonBlocking /\ Len(empties) < 2
              /\ empties' = Append(empties, <<c, Len(pipe)>>)
              /\ UNCHANGED <<cheld, pipe, out, cpc>>
    /\ UNCHANGED <<sem, buf, held, nput, ppc, gotby, fulls, unfinished, joined>>
G_Release(c) ==      \* ... give the slot back, unpickle, return
    /\ cpc[c] = "got"
    /\ sem' = sem + 1 /\ gotby' = [gotby EXCEPT ![c] = Append(gotby[c], cheld[c][1])]
    /\ cheld' = [cheld EXCEPT ![c] = <<>>] /\ cpc' = [cpc EXCEPT ![c] = "idle"]
    /\ UNCHANGED <<buf, held, pipe, nput, ppc, out, fulls, empties, unfinished, joined>>
TaskDone ==          \* a consumer reports an item processed
    /\ Joinable /\ unfinished > 0
    /\ LET done == LET RECURSIVE S(_) S(cs) == IF cs = {} THEN 0 ELSE LET c == CHOOSE x \in cs : TRUE
                                                                  IN Len(gotby[c]) + S(cs \ {c})
                   IN S(Consumers)
           total == LET RECURSIVE T(_) T(ps) == IF ps = {} THEN 0 ELSE LET p == CHOOSE x \in ps : TRUE
                                                                 IN nput[p] + T(ps \ {p})
                    IN T(Producers)
       IN total - unfinished < done        \* only for items actually received
    /\ unfinished' = unfinished - 1
    /\ UNCHANGED <<sem, buf, held, pipe, nput, ppc, cpc, cheld, out, gotby, fulls, empties, joined>>
Join ==              \* JoinableQueue.join() returns
    /\ Joinable /\ ~joined /\ unfinished = 0
    /\ joined' = TRUE
    /\ UNCHANGED <<sem, buf, held, pipe, nput, ppc, cpc, cheld, out, gotby, fulls, empties, unfinished>>

Next == \/ \E p \in Producers : P_Acquire(p) \/ P_Append(p) \/ F_Pop(p) \/ F_Send(p)
        \/ \E c \in Consumers : G_Recv(c) \/ G_Release(c)
        \/ TaskDone \/ Join
Spec == Init /\ [][Next]_vars

(* ========================================================================= *)
ToSet(s) == {s[i] : i \in 1..Len(s)}
InFlight == UNION {ToSet(buf[p]) : p \in Producers} \cup UNION {ToSet(held[p]) : p \in Producers}
            \cup ToSet(pipe) \cup UNION {ToSet(cheld[c]) : c \in Consumers}
Got == UNION {ToSet(gotby[c]) : c \in Consumers}
PutSoFar == {Item(p, k) : p \in Producers, k \in 1..ItemsPer} \cap {x \in Producers \X (1..ItemsPer) : x[2] <= nput[x[1]]}
(* nothing lost, nothing duplicated *)
NoLossNoDup == /\ InFlight \cup Got = PutSoFar /\ InFlight \cap Got = {}
               /\ \A c, d \in Consumers : c # d => ToSet(gotby[c]) \cap ToSet(gotby[d]) = {}
               /\ \A c \in Consumers : Len(gotby[c]) = Cardinality(ToSet(gotby[c]))
(* per-producer FIFO in the order items leave the pipe *)
PerProducerFIFO == \A i, j \in 1..Len(out) : (i < j /\ out[i][1] = out[j][1]) => out[i][2] < out[j][2]
(* capacity: slots are conserved, never more than MaxSize items waiting *)
SlotsConserved == sem + Waiting + Cardinality({p \in Producers : ppc[p] = "acquired"})
                      + Cardinality({c \in Consumers : cpc[c] = "got"}) = MaxSize
Capacity == Waiting <= MaxSize /\ sem >= 0
FullOnlyWhenFull == \A i \in 1..Len(fulls) : fulls[i][2] = MaxSize
(* join returns exactly when every item put has been matched by a task_done *)
JoinExact == [][(joined' /\ ~joined) => unfinished = 0]_vars
=============================================================================
