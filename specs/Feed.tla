-------------------------------- MODULE Feed --------------------------------
(* The task feeder: billiard.pool.TaskHandler.body / tell_others, at the granularity of  *)
(* its blocking calls -- taskqueue.get(), fetching the next task of a task sequence,      *)
(* put(task), outqueue.put(None), put(None) -- with the environment deciding how each      *)
(* put ends (ok / IOError / any other exception), whether an imap's iterable raises,       *)
(* when the user discards a job, and when the handler is told to stop (state flag or       *)
(* sentinel).  The job table holds the real kinds of handle: ApplyResult, MapResult,       *)
(* IMapIterator, IMapUnorderedIterator, as far as a *failure filed by the feeder*           *)
(* changes them.  Properties: C01 (a task that cannot be sent fails its own job, once;      *)
(* nothing is filed under another job; every task of an accepted job is sent exactly        *)
(* once, in order, or failed), C07 (told to stop, the feeder sends its sentinels and        *)
(* ends; nothing is fed after that).                                                        *)
(* Spec job j (1..NJobs) is the pool's job id j - 1.                                        *)
EXTENDS Integers, Sequences, FiniteSets, TLC, Json, SequencesExt

CONSTANTS NJobs,        \* jobs are submitted in id order
          Kinds,        \* subset of {"apply", "map", "imap", "imapu"}
          MaxTasks,     \* map/imap jobs have 0..MaxTasks tasks (parts); apply jobs one
          NWorkers,     \* pool size (one sentinel each)
          MaxPutFail,   \* put failures the environment may inject
          MaxDiscard,   \* user discards
          DevJobZero    \* TRUE: an iterable that raises before its first item yields files the
                        \* failure under job id 0, index 1 (`task[1][:2] if task else (0, 0)`)

VARIABLES shape,   \* j -> [kind, n, r]: kind, number of tasks, r = 0 or the task whose production raises
          sub,     \* jobs submitted so far
          tq,      \* task queue: job ids, 0 = the sentinel None
          stopq,   \* sentinel enqueued
          hstate,  \* handler's _state: "RUN" | "STOP"
          pc,      \* "get" | "iter" | "put" | "tell" | "tellw" | "done"
          cur, pos,    \* job being fed, tasks fetched from it so far
          sent,    \* <<j, i>> of every task put successfully (i = -1 for apply), in order
          job,     \* j -> [ecb, res, ix, uns, len, inc]: error callbacks fired, resolved/ready,
                   \*      imap: next index, reorder buffer keys, length (-1 unknown); in the table
          blame,   \* observation: every failure the feeder filed: [to |-> <<j, i>>, src |-> <<j, i>>]
          fin,     \* jobs whose task sequence was consumed to its end (or to its exception)
          outs, wsent,     \* sentinels sent to the result handler / to workers
          tellio,  \* a worker sentinel could not be written
          nfail, ndisc,
          act
vars == <<shape, sub, tq, stopq, hstate, pc, cur, pos, sent, job, blame, fin, outs, wsent, tellio, nfail, ndisc, act>>
View == <<shape, sub, tq, stopq, hstate, pc, cur, pos, sent, job, blame, fin, outs, wsent, tellio, nfail, ndisc>>

J == 1..NJobs
Shapes == {[kind |-> k, n |-> n, r |-> r] : k \in Kinds, n \in 0..MaxTasks, r \in 0..(MaxTasks + 1)}
GoodShape(s) == /\ s.kind = "apply" => (s.n = 1 /\ s.r = 0)
                /\ s.kind = "map" => s.r = 0             \* map_async lists its iterable first
                /\ s.r <= s.n + 1
                /\ (s.r > 0) => s.n = s.r - 1            \* an iterable that raises yields nothing after
Fresh == [ecb |-> 0, res |-> FALSE, ix |-> 0, uns |-> {}, len |-> -1, inc |-> FALSE]

Init == /\ shape \in [J -> {s \in Shapes : GoodShape(s)}]
        /\ sub = 0 /\ tq = <<>> /\ stopq = FALSE /\ hstate = "RUN" /\ pc = "get"
        /\ cur = 0 /\ pos = 0 /\ sent = <<>> /\ job = [j \in J |-> Fresh]
        /\ blame = <<>> /\ fin = {} /\ outs = 0 /\ wsent = 0 /\ tellio = FALSE /\ nfail = 0 /\ ndisc = 0
        /\ act = [name |-> "Init"]

Idx(j, p) == IF shape[j].kind = "apply" THEN -1 ELSE p - 1     \* index carried by the p-th task of j
Produced(j) == shape[j].n

(* the effect of handle._set(i, failure) / _set_length(n) on each kind of handle *)
RECURSIVE Advance(_, _)
Advance(ix, uns) == IF ix \in uns THEN Advance(ix + 1, uns \ {ix}) ELSE <<ix, uns>>
FailSet(r, k, i) ==
    CASE k = "apply" -> [r EXCEPT !.ecb = @ + 1, !.res = TRUE]
      [] k = "map"   -> [r EXCEPT !.ecb = @ + 1, !.res = TRUE, !.inc = FALSE]
      [] k = "imap"  -> LET a == IF r.ix = i THEN Advance(i + 1, r.uns) ELSE <<r.ix, r.uns \cup {i}>>
                            fin2 == a[1] = r.len
                        IN [r EXCEPT !.ix = a[1], !.uns = a[2], !.res = @ \/ fin2,
                                     !.inc = IF fin2 THEN FALSE ELSE @]
      [] k = "imapu" -> LET fin2 == r.ix + 1 = r.len
                        IN [r EXCEPT !.ix = @ + 1, !.res = @ \/ fin2, !.inc = IF fin2 THEN FALSE ELSE @]
SetLen(r, n) == LET fin2 == r.ix = n
                IN [r EXCEPT !.len = n, !.res = @ \/ fin2, !.inc = IF fin2 THEN FALSE ELSE @]

(* ------------------------------ environment ------------------------------ *)
Submit ==
    /\ sub < NJobs /\ ~stopq
    /\ sub' = sub + 1 /\ tq' = Append(tq, sub + 1)
    /\ job' = [job EXCEPT ![sub + 1] = [Fresh EXCEPT !.inc = ~(shape[sub + 1].kind = "map" /\ shape[sub + 1].n = 0),
                                                     !.res = (shape[sub + 1].kind = "map" /\ shape[sub + 1].n = 0)]]
    /\ act' = [name |-> "Submit", j |-> sub + 1]
    /\ UNCHANGED <<shape, stopq, hstate, pc, cur, pos, sent, blame, fin, outs, wsent, nfail, ndisc, tellio>>
Close ==          \* close(): the sentinel goes onto the task queue
    /\ ~stopq /\ stopq' = TRUE /\ tq' = Append(tq, 0)
    /\ act' = [name |-> "Close"]
    /\ UNCHANGED <<shape, sub, hstate, pc, cur, pos, sent, job, blame, fin, outs, wsent, nfail, ndisc, tellio>>
Stop ==           \* terminate(): the handler's state flag
    /\ hstate = "RUN" /\ hstate' = "STOP"
    /\ act' = [name |-> "Stop"]
    /\ UNCHANGED <<shape, sub, tq, stopq, pc, cur, pos, sent, job, blame, fin, outs, wsent, nfail, ndisc, tellio>>
Discard(j) ==     \* the user drops an apply / map handle from the table
    /\ j <= sub /\ ndisc < MaxDiscard /\ shape[j].kind \in {"apply", "map"} /\ job[j].inc
    /\ job' = [job EXCEPT ![j].inc = FALSE] /\ ndisc' = ndisc + 1
    /\ act' = [name |-> "Discard", j |-> j]
    /\ UNCHANGED <<shape, sub, tq, stopq, hstate, pc, cur, pos, sent, blame, fin, outs, wsent, nfail, tellio>>

(* -------------------------------- handler -------------------------------- *)
Get ==            \* taskqueue.get() returns
    /\ pc = "get" /\ tq # <<>>
    /\ tq' = Tail(tq)
    /\ IF Head(tq) = 0 THEN pc' = "tell" /\ UNCHANGED <<cur, pos>>
                       ELSE pc' = "iter" /\ cur' = Head(tq) /\ pos' = 0
    /\ act' = [name |-> "Get"]
    /\ UNCHANGED <<shape, sub, stopq, hstate, sent, job, blame, fin, outs, wsent, nfail, ndisc, tellio>>
Fetch ==          \* next(taskseq): a task, the end, or the iterable's exception
    /\ pc = "iter"
    /\ LET s == shape[cur] IN
       IF s.r = pos + 1 THEN            \* the iterable raises
            LET tj == IF pos = 0 THEN 1 ELSE cur         \* job the code blames (id 0 = spec job 1)
                ti == IF pos = 0 THEN 1 ELSE (IF Idx(cur, pos) = -1 THEN 0 ELSE Idx(cur, pos)) + 1
                files == (pos > 0 \/ DevJobZero) /\ job[tj].inc
                j1 == IF files THEN [job EXCEPT ![tj] = FailSet(job[tj], shape[tj].kind, ti)] ELSE job
            IN /\ job' = [j1 EXCEPT ![cur] = IF s.kind \in {"imap", "imapu"} THEN SetLen(j1[cur], pos) ELSE @]
               /\ blame' = IF files THEN Append(blame, [to |-> <<tj, ti>>, src |-> <<cur, pos>>]) ELSE blame
               /\ fin' = fin \cup {cur} /\ pc' = "get" /\ UNCHANGED <<pos>>
       ELSE IF pos = s.n THEN           \* exhausted: set_length(i + 1) for the imap kinds
            /\ job' = [job EXCEPT ![cur] = IF s.kind \in {"imap", "imapu"} THEN SetLen(@, pos) ELSE @]
            /\ fin' = fin \cup {cur} /\ pc' = "get" /\ UNCHANGED <<pos, blame>>
       ELSE /\ pos' = pos + 1
            /\ pc' = IF hstate = "RUN" THEN "put" ELSE "tell"     \* `if self._state: break`
            /\ UNCHANGED <<job, blame, fin>>
    /\ act' = [name |-> "Fetch"]
    /\ UNCHANGED <<shape, sub, tq, stopq, hstate, cur, sent, outs, wsent, nfail, ndisc, tellio>>
PutOk ==
    /\ pc = "put" /\ sent' = Append(sent, <<cur, Idx(cur, pos)>>) /\ pc' = "iter"
    /\ act' = [name |-> "PutOk"]
    /\ UNCHANGED <<shape, sub, tq, stopq, hstate, cur, pos, job, blame, fin, outs, wsent, nfail, ndisc, tellio>>
PutIOError ==     \* the pipe is gone: stop feeding
    /\ pc = "put" /\ nfail < MaxPutFail /\ nfail' = nfail + 1 /\ pc' = "tell"
    /\ act' = [name |-> "PutIOError"]
    /\ UNCHANGED <<shape, sub, tq, stopq, hstate, cur, pos, sent, job, blame, fin, outs, wsent, ndisc, tellio>>
PutExc ==         \* this task cannot be sent (e.g. unpicklable): fail its job, go on
    /\ pc = "put" /\ nfail < MaxPutFail /\ nfail' = nfail + 1 /\ pc' = "iter"
    /\ IF job[cur].inc
         THEN /\ job' = [job EXCEPT ![cur] = FailSet(@, shape[cur].kind, Idx(cur, pos))]
              /\ blame' = Append(blame, [to |-> <<cur, Idx(cur, pos)>>, src |-> <<cur, Idx(cur, pos)>>])
         ELSE UNCHANGED <<job, blame>>
    /\ act' = [name |-> "PutExc"]
    /\ UNCHANGED <<shape, sub, tq, stopq, hstate, cur, pos, sent, fin, outs, wsent, ndisc, tellio>>
TellOut ==        \* tell_others: the result handler's sentinel
    /\ pc = "tell" /\ outs' = outs + 1 /\ pc' = IF NWorkers > 0 THEN "tellw" ELSE "done"
    /\ act' = [name |-> "TellOut"]
    /\ UNCHANGED <<shape, sub, tq, stopq, hstate, cur, pos, sent, job, blame, fin, wsent, nfail, ndisc, tellio>>
TellWOk ==
    /\ pc = "tellw" /\ wsent' = wsent + 1 /\ pc' = IF wsent + 1 = NWorkers THEN "done" ELSE "tellw"
    /\ act' = [name |-> "TellWOk"]
    /\ UNCHANGED <<shape, sub, tq, stopq, hstate, cur, pos, sent, job, blame, fin, outs, nfail, ndisc, tellio>>
TellWIOError ==
    /\ pc = "tellw" /\ nfail < MaxPutFail /\ nfail' = nfail + 1 /\ pc' = "done" /\ tellio' = TRUE
    /\ act' = [name |-> "TellWIOError"]
    /\ UNCHANGED <<shape, sub, tq, stopq, hstate, cur, pos, sent, job, blame, fin, outs, wsent, ndisc>>

Handler == Get \/ Fetch \/ PutOk \/ PutIOError \/ PutExc \/ TellOut \/ TellWOk \/ TellWIOError
Progress == Get \/ Fetch \/ PutOk \/ TellOut \/ TellWOk
Next == Submit \/ Close \/ Stop \/ (\E j \in J : Discard(j)) \/ Handler
Spec == Init /\ [][Next]_vars
FairSpec == Spec /\ WF_vars(Progress)

(* ================================ properties ================================ *)
RangeOf(s) == {s[k] : k \in 1..Len(s)}
(* C01: a failure is filed under the job and index of the task that could not be sent *)
FailOwn == \A k \in 1..Len(blame) : blame[k].to = blame[k].src
(* C01: error callbacks at most once per job *)
ErrCbOnce == \A j \in J : job[j].ecb <= 1
(* C01 / C02: tasks reach the pipe at most once, jobs in submission order, indices ascending *)
SentInOrder == \A a, b \in 1..Len(sent) : a < b =>
                   \/ sent[a][1] < sent[b][1]
                   \/ (sent[a][1] = sent[b][1] /\ sent[a][2] < sent[b][2])
(* C01: every produced task of a consumed sequence was sent, or its failure was filed, or *)
(* its job had left the table                                                              *)
Failed == {blame[k].src : k \in 1..Len(blame)}
FedOrFailed == \A j \in fin : \A p \in 1..Produced(j) :
                   \/ <<j, Idx(j, p)>> \in RangeOf(sent) \/ <<j, Idx(j, p)>> \in Failed \/ ~job[j].inc
(* C02: an imap's length is the number of tasks its iterable produced *)
LenRight == \A j \in fin : shape[j].kind \in {"imap", "imapu"} => job[j].len = Produced(j)
(* C07: on the way out nothing more is fed; both kinds of sentinel go out *)
Leaving == pc \in {"tell", "tellw", "done"}
NoFeedAfterStop == [][Leaving => (Leaving' /\ sent' = sent /\ blame' = blame)]_vars
(* C08: once the handler's state says stop, the very next task fetched is not put *)
StopSeenAtOnce == [][(hstate = "STOP" /\ act'.name = "Fetch") => pc' # "put"]_vars
Sentinels == pc = "done" => (outs = 1 /\ (wsent = NWorkers \/ tellio))
SentinelsOnlyLeaving == (outs > 0 \/ wsent > 0) => Leaving
(* the handler thread never dies of an exception *)
HandlerAlive == pc \in {"get", "iter", "put", "tell", "tellw", "done"}
(* C07 (liveness, FairSpec): told to stop by the sentinel, the feeder ends *)
StopsWhenClosed == stopq ~> (pc = "done")

Proj == [shape |-> shape, sub |-> sub, tq |-> tq, stopq |-> stopq, hstate |-> hstate, pc |-> pc,
         cur |-> cur, pos |-> pos, sent |-> sent, job |-> job, blame |-> blame, fin |-> fin,
         outs |-> outs, wsent |-> wsent, tellio |-> tellio, nfail |-> nfail, ndisc |-> ndisc]
EmitEdge == PrintT(ToJson([from |-> Proj, act |-> act', to |-> Proj', lvl |-> TLCGet("level")]))
EmitInit == TLCGet("level") > 1 \/ PrintT(ToJson([init |-> Proj]))
=============================================================================
