-------------------------- MODULE PoolPartsMonitor --------------------------
(* Layer-2 monitor for PoolParts.tla: walks observed state sequences of the real Pool *)
(* (projected by harness/poolparts.py) and evaluates PoolParts' own formulas on them.  *)
EXTENDS PoolParts, IOUtils
VARIABLES tid, l
Obs == JsonDeserialize(IOEnv.OBS_FILE)

ToSet(s) == {s[i] : i \in 1..Len(s)}
PadW(ws) == [p \in Pids |-> IF p <= Len(ws) THEN ws[p] ELSE NoWorker]
PadDone(d) == [i \in Parts |-> IF i <= Len(d) THEN d[i] ELSE "none"]

MonInit == /\ tid \in 1..Len(Obs) /\ l = 1
           /\ LET o == Obs[tid][1].state IN
               /\ nsent = o.nsent /\ lenset = o.lenset /\ inq = o.inq /\ outq = o.outq
               /\ owners = o.owners /\ acc = ToSet(o.acc) /\ done = PadDone(o.done) /\ jr = o.jr
               /\ idx = o.idx /\ unsorted = ToSet(o.unsorted) /\ deliv = o.deliv /\ pool = o.pool
               /\ w = PadW(o.w) /\ nextpid = Len(o.w) + 1 /\ now = o.now /\ supd = FALSE
               /\ miscredit = o.miscredit /\ lateack = o.lateack
               /\ act = Obs[tid][1].act

MonNext == /\ l < Len(Obs[tid]) /\ l' = l + 1 /\ tid' = tid
           /\ LET o == Obs[tid][l + 1].state
                  a == Obs[tid][l + 1].act
              IN /\ nsent' = o.nsent /\ lenset' = o.lenset /\ inq' = o.inq /\ outq' = o.outq
                 /\ owners' = o.owners /\ acc' = ToSet(o.acc) /\ done' = PadDone(o.done) /\ jr' = o.jr
                 /\ idx' = o.idx /\ unsorted' = ToSet(o.unsorted) /\ deliv' = o.deliv /\ pool' = o.pool
                 /\ w' = PadW(o.w) /\ nextpid' = Len(o.w) + 1 /\ now' = o.now
                 /\ supd' = IF a.name = "Maintain" THEN TRUE ELSE IF a.name = "Tick" THEN FALSE ELSE supd
                 /\ miscredit' = o.miscredit /\ lateack' = o.lateack
                 /\ act' = a
=============================================================================
