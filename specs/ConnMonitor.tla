---------------------------- MODULE ConnMonitor ----------------------------
EXTENDS Conn, IOUtils
VARIABLES tid, l
Obs == JsonDeserialize(IOEnv.OBS_FILE)
MonInit == /\ tid \in 1..Len(Obs) /\ l = 1
           /\ LET o == Obs[tid][1].state IN
              /\ msgs = o.msgs /\ si = o.si /\ soff = o.soff /\ sclosed = o.sclosed /\ ri = o.ri
              /\ roff = o.roff /\ rcall = o.rcall /\ results = o.results /\ readable = o.readable
              /\ rdead = o.rdead /\ slog = o.slog /\ neintr = o.neintr /\ nops = o.nops
              /\ act = Obs[tid][1].act
MonNext == /\ l < Len(Obs[tid]) /\ l' = l + 1 /\ tid' = tid
           /\ LET o == Obs[tid][l + 1].state IN
              /\ msgs' = o.msgs /\ si' = o.si /\ soff' = o.soff /\ sclosed' = o.sclosed /\ ri' = o.ri
              /\ roff' = o.roff /\ rcall' = o.rcall /\ results' = o.results /\ readable' = o.readable
              /\ rdead' = o.rdead /\ slog' = o.slog /\ neintr' = o.neintr /\ nops' = o.nops
              /\ act' = Obs[tid][l + 1].act
(* the pending read() never asks for more than the rest of the current header / message *)
AsksWhatRemains == Obs[tid][l].state.asked <= Asked
(* content fidelity, as reported by the harness that compares real bytes *)
BytesIntact == Obs[tid][l].state.intact
OutcomesKnown == \A i \in 1..Len(results) :
    results[i][2] \in {"ok", "tooshort", "toolong", "eof", "eof_after_header", "eof_in_message",
                       "negmaxlength", "negoffset", "bigoffset", "notreadable"}
SendRefusalsExact == \A i \in 1..Len(slog) :
    slog[i] \in {"negoffset", "bigoffset", "negsize", "bigsize", "closed", "readonly"}
=============================================================================
