--------------------------- MODULE MapAsmMonitor ---------------------------
EXTENDS MapAsm, IOUtils
VARIABLES tid, l
Obs == JsonDeserialize(IOEnv.OBS_FILE)
ToSet(s) == {s[i] : i \in 1..Len(s)}
MonInit == /\ tid \in 1..Len(Obs) /\ l = 1
           /\ LET o == Obs[tid][1].state IN
              /\ n = o.n /\ c = o.c /\ kind = o.kind /\ fails = ToSet(o.fails) /\ cgiven = o.cgiven
              /\ psize = o.psize /\ sent = o.sent /\ lenset = o.lenset /\ acked = ToSet(o.acked)
              /\ done = ToSet(o.done) /\ incache = o.incache /\ mval = o.mval /\ merr = o.merr
              /\ mleft = o.mleft /\ mready = o.mready /\ msucc = o.msucc /\ mcb = o.mcb
              /\ mecb = o.mecb /\ idx = o.idx /\ items = o.items /\ unsorted = ToSet(o.unsorted)
              /\ ilen = o.ilen /\ iready = o.iready /\ chunkbuf = o.chunkbuf /\ gdead = o.gdead
              /\ yielded = o.yielded /\ stopped = o.stopped /\ last = o.last /\ ndup = o.ndup
              /\ act = Obs[tid][1].act
MonNext == /\ l < Len(Obs[tid]) /\ l' = l + 1 /\ tid' = tid
           /\ LET o == Obs[tid][l + 1].state IN
              /\ n' = o.n /\ c' = o.c /\ kind' = o.kind /\ fails' = ToSet(o.fails) /\ cgiven' = o.cgiven
              /\ psize' = o.psize /\ sent' = o.sent /\ lenset' = o.lenset /\ acked' = ToSet(o.acked)
              /\ done' = ToSet(o.done) /\ incache' = o.incache /\ mval' = o.mval /\ merr' = o.merr
              /\ mleft' = o.mleft /\ mready' = o.mready /\ msucc' = o.msucc /\ mcb' = o.mcb
              /\ mecb' = o.mecb /\ idx' = o.idx /\ items' = o.items /\ unsorted' = ToSet(o.unsorted)
              /\ ilen' = o.ilen /\ iready' = o.iready /\ chunkbuf' = o.chunkbuf /\ gdead' = o.gdead
              /\ yielded' = o.yielded /\ stopped' = o.stopped /\ last' = o.last /\ ndup' = o.ndup
              /\ act' = Obs[tid][l + 1].act
=============================================================================
