"""C18 -- connection authentication is mutual and exact."""
import os
import tempfile
from concurrent.futures import ThreadPoolExecutor

from harness.auth import AuthAdapter
from lib import recipe

INV = ['MutualExact', 'SameKeySucceeds', 'HostileRefused']
PROPS = ['OnlyCorrectDigest', 'FreshChallenges']


def consts(keys, hk, modes, sessions):
    q = lambda xs: '{' + ', '.join('"%s"' % x for x in xs) + '}'
    return dict(Keys=q(keys), HostileKeys=q(hk), Modes=q(modes), Sessions=str(sessions))


def key_type_checks(ctx):
    """non-bytes keys are rejected with TypeError by Listener and Client; an
    AuthenticationString refuses to be pickled outside process spawning"""
    import pickle
    from billiard.connection import Client, Listener
    from billiard.process import AuthenticationString
    d = tempfile.mkdtemp(prefix='verif-auth-', dir='/var/tmp')
    addr = os.path.join(d, 'sock')
    bad = []
    try:
        try:
            Listener(addr, authkey='not bytes').close()
            bad.append('Listener accepted a str key')
        except TypeError:
            pass
        if os.path.exists(addr):
            os.unlink(addr)
        with Listener(addr, authkey=b'k') as lis:
            try:
                Client(addr, authkey='not bytes')
                bad.append('Client accepted a str key')
            except TypeError:
                pass
            try:
                Client(addr, authkey=12345)
                bad.append('Client accepted an int key')
            except TypeError:
                pass
        try:
            pickle.dumps(AuthenticationString(b'secret'))
            bad.append('AuthenticationString pickled outside spawning')
        except TypeError:
            pass
    finally:
        try:
            if os.path.exists(addr):
                os.unlink(addr)
            os.rmdir(d)
        except OSError:
            pass
    ctx.note('key_type_checks', {'cases': 4, 'failed': bad})
    for b in bad:
        ctx.violation('key type check: ' + b, 'keytype:' + b)


def main(ctx):
    thorough = ctx.tier == 'thorough'
    modes = ['honest', 'hostile_client', 'hostile_listener']
    small = consts(['k1', 'k2'], ['k2'], modes, 1)
    wide = consts(['k1', 'k2', 'k3'], ['k2', 'k4'], modes, 2)
    walks = consts(['k1', 'k2', 'k3', 'k4'], ['k2'], modes, 3 if thorough else 2)
    ctx.assumptions += ['HMAC-MD5 behaves like an injective keyed function (no collisions, no '
                        'forgery); os.urandom left real, freshness observed as distinctness',
                        'relay of a challenge to another party holding the key is outside the '
                        'statement (a digest obtained that way *is* the correct digest)']
    key_type_checks(ctx)

    def run(label, c, **kw):
        return recipe.tlc_only(label, 'Auth', constants=c, invariants=INV, properties=PROPS,
                               timeout=1500, heap='4g', budget_ok=True, **kw)
    with ThreadPoolExecutor(3) as ex:
        fs = ex.submit(run, 'auth-small', small if not thorough else consts(['k1', 'k2'], ['k2'], modes, 2),
                       emit=True)
        fw = ex.submit(run, 'auth-wide', wide, workers=8)
        fk = ex.submit(run, 'auth-walks', walks, emit=True, simulate=4000 if thorough else 600,
                       depth=40, seed=ctx.seed)
        g = recipe.account(ctx, 'auth-small', 'Auth', small, fs.result(), emit=True)
        ctx.sample({'unit': 'auth-small', 'states': len(g.state), 'edges': g.n_edges})
        recipe.conform(ctx, 'auth-small', g, AuthAdapter, mon_module='AuthMonitor',
                       mon_invariants=INV, mon_properties=PROPS, mon_constants=small,
                       sample=None if thorough else 40000)
        behs = recipe.account(ctx, 'auth-walks', 'Auth', walks, fk.result(), emit=True, simulate=True)
        if behs:
            ctx.sample({'walk': [e['act'] for e in behs[0]][:20],
                        'scenario': {k: behs[0][0]['from'][k] for k in ('mode', 'kl', 'kc')}})
        recipe.conform(ctx, 'auth-walks', behs, AuthAdapter, mon_module='AuthMonitor',
                       mon_invariants=INV, mon_properties=PROPS, mon_constants=walks,
                       monitor_all=True)
        recipe.account(ctx, 'auth-wide', 'Auth', wide, fw.result())
    ctx.exhaustive = True
