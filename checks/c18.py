"""C18 -- connection authentication is mutual and exact."""
import os
import tempfile
from concurrent.futures import ThreadPoolExecutor

from harness.auth import AuthAdapter
from lib import recipe

INV = ['MutualExact', 'SameKeySucceeds', 'HostileRefused']
PROPS = ['OnlyCorrectDigest', 'FreshChallenges']


def consts(keys, hk, modes, sessions):
    q = lambda xs: '{' + ', '.join('"%s"' % x for x in xs) + '}'
    return dict(Keys=q(keys), HostileKeys=q(hk), Modes=q(modes), Sessions=str(sessions))


NON_BYTES_KEYS = ['not bytes', 12345, 7, True, [1, 2, 3], bytearray(b'k'), 2.5, range(3)]


def key_type_checks(ctx):
    """non-bytes keys are rejected with TypeError by Listener and Client (before any I/O: a call that
    blocks instead is bounded and reported); an AuthenticationString refuses to be pickled outside
    process spawning"""
    import pickle
    import threading
    from billiard.connection import Client, Listener
    from billiard.process import AuthenticationString
    d = tempfile.mkdtemp(prefix='verif-auth-', dir='/var/tmp')
    addr = os.path.join(d, 'sock')
    bad = []
    cases = [0]

    def attempt(what, fn):
        """fn must raise TypeError; bounded: it may block if the key was taken for a real one"""
        cases[0] += 1
        out = {}

        def body():
            try:
                r = fn()
                out['r'] = 'accepted'
                try:
                    r.close()
                except Exception:
                    pass
            except TypeError:
                out['r'] = 'typeerror'
            except Exception as exc:      # used as a key and failed later: not rejected as a type
                out['r'] = 'other:' + type(exc).__name__
        t = threading.Thread(target=body, daemon=True)
        t.start()
        t.join(20)
        r = out.get('r', 'blocked (no TypeError within 20 s)')
        if r != 'typeerror':
            bad.append('%s: %s' % (what, r))

    try:
        for k in NON_BYTES_KEYS:
            attempt('Listener(authkey=%r)' % (k,), lambda k=k: Listener(addr, authkey=k))
            if os.path.exists(addr):
                os.unlink(addr)
        for k in NON_BYTES_KEYS:
            # a listener of its own per attempt: Client connects before it looks at the key, and
            # nobody accepts here, so a shared listener's backlog would fill up
            with Listener(addr, authkey=b'k'):
                attempt('Client(authkey=%r)' % (k,), lambda k=k: Client(addr, authkey=k))
            if os.path.exists(addr):
                os.unlink(addr)
        try:
            pickle.dumps(AuthenticationString(b'secret'))
            bad.append('AuthenticationString pickled outside spawning')
        except TypeError:
            pass
    finally:
        try:
            if os.path.exists(addr):
                os.unlink(addr)
            os.rmdir(d)
        except OSError:
            pass
    ctx.note('key_type_checks', {'cases': cases[0] + 1, 'failed': bad})
    for b in bad:
        ctx.violation('key type check: ' + b, 'keytype:' + b.split(':')[0])


def main(ctx):
    thorough = ctx.tier == 'thorough'
    modes = ['honest', 'hostile_client', 'hostile_listener']
    small = consts(['k1', 'k2'], ['k2'], modes, 1)
    wide = consts(['k1', 'k2', 'k3'], ['k2', 'k4'], modes, 2)
    walks = consts(['k1', 'k2', 'k3', 'k4'], ['k2'], modes, 3 if thorough else 2)
    ctx.assumptions += ['HMAC-MD5 behaves like an injective keyed function (no collisions, no '
                        'forgery); os.urandom left real, freshness observed as distinctness',
                        'relay of a challenge to another party holding the key is outside the '
                        'statement (a digest obtained that way *is* the correct digest)']
    key_type_checks(ctx)

    def run(label, c, **kw):
        return recipe.tlc_only(label, 'Auth', constants=c, invariants=INV, properties=PROPS,
                               timeout=1500, heap='4g', budget_ok=True, **kw)
    with ThreadPoolExecutor(3) as ex:
        fs = ex.submit(run, 'auth-small', small if not thorough else consts(['k1', 'k2'], ['k2'], modes, 2),
                       emit=True)
        fw = ex.submit(run, 'auth-wide', wide, workers=8)
        fk = ex.submit(run, 'auth-walks', walks, emit=True, simulate=4000 if thorough else 600,
                       depth=40, seed=ctx.seed)
        g = recipe.account(ctx, 'auth-small', 'Auth', small, fs.result(), emit=True)
        ctx.sample({'unit': 'auth-small', 'states': len(g.state), 'edges': g.n_edges})
        recipe.conform(ctx, 'auth-small', g, AuthAdapter, mon_module='AuthMonitor',
                       mon_invariants=INV, mon_properties=PROPS, mon_constants=small,
                       sample=None if thorough else 40000)
        behs = recipe.account(ctx, 'auth-walks', 'Auth', walks, fk.result(), emit=True, simulate=True)
        if behs:
            ctx.sample({'walk': [e['act'] for e in behs[0]][:20],
                        'scenario': {k: behs[0][0]['from'][k] for k in ('mode', 'kl', 'kc')}})
        recipe.conform(ctx, 'auth-walks', behs, AuthAdapter, mon_module='AuthMonitor',
                       mon_invariants=INV, mon_properties=PROPS, mon_constants=walks,
                       monitor_all=True)
        recipe.account(ctx, 'auth-wide', 'Auth', wide, fw.result())
    ctx.exhaustive = True
