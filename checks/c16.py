"""C16 -- queues lose nothing, duplicate nothing and respect their capacity."""
from concurrent.futures import ThreadPoolExecutor

from lib import monitor, recipe, sandbox

INV = ['NoLossNoDup', 'PerProducerFIFO', 'SlotsConserved', 'Capacity', 'FullOnlyWhenFull']
PROPS = ['JoinExact']
HINV = ['NobodyStuck', 'NoDup', 'NoAlien', 'NoLoss', 'PerProducerFIFO', 'Capacity', 'FullOnlyWhenFull',
        'EmptyOnlyAfterTimeout', 'EmptyOnlyWhenEmpty', 'JoinExact']


def consts(np_, nc, per, maxsize, joinable, nonblocking):
    return dict(Producers='{' + ', '.join(str(i + 1) for i in range(np_)) + '}',
                Consumers='{' + ', '.join(str(11 + i) for i in range(nc)) + '}',
                ItemsPer=str(per), MaxSize=str(maxsize),
                Joinable='TRUE' if joinable else 'FALSE',
                NonBlocking='TRUE' if nonblocking else 'FALSE')


def main(ctx):
    thorough = ctx.tier == 'thorough'
    units = [consts(2, 2, 2, 1, True, True), consts(2, 2, 3, 2, False, False)]
    if thorough:
        units += [consts(2, 2, 3, 1, True, True), consts(3, 2, 2, 2, False, True)]

    def run(i, c):
        return recipe.tlc_only('queue-design%d' % i, 'Queue', constants=c, invariants=INV,
                               properties=PROPS, view=None, workers=6, timeout=1800, heap='6g', budget_ok=True)
    with ThreadPoolExecutor(2) as ex:
        futs = [ex.submit(run, i, c) for i, c in enumerate(units)]
        scale = sandbox.time_scale()
        rc, hs, log = sandbox.run_driver_patient('queue', 'harness.queue_main', [ctx.tier],
                                         timeout=(900 if thorough else 400) * scale,
                                         env={'VERIF_TIME_SCALE': str(scale)})
        for i, (c, f) in enumerate(zip(units, futs)):
            recipe.account(ctx, 'queue-design%d' % i, 'Queue', c, f.result())
    if rc != 0 or hs is None:
        sandbox.driver_failed('queue', rc, log)
    ctx.traces += len(hs)
    ctx.replay_steps += sum(len(h['events']) for h in hs)
    ctx.sample({'history': hs[0]['name'], 'events': hs[0]['events'][:6]})
    ctx.note('histories', [{'name': h['name'], 'events': len(h['events'])} for h in hs])
    _, verdicts = monitor.check('QueueHist', hs, invariants=HINV, timeout=900)
    seen = set()
    for v in verdicts:
        h = hs[v['trace']] if v['trace'] is not None else {'name': '?', 'events': []}
        if (v['name'], h['name']) in seen:
            continue
        seen.add((v['name'], h['name']))
        ctx.violation('recorded history %s falsifies %s' % (h['name'], v['name']),
                      'observed:queue:%s:%s' % (v['name'], h['name'].split('/')[0]),
                      replay={'history': h['name'], 'events': h['events'][:400]})
    for h in hs:
        if h['corrupt']:
            ctx.violation('%d objects came out changed (%s)' % (h['corrupt'], h['name']),
                          'observed:queue:corrupt', replay=h['name'])
        for e in h['events']:
            if e['k'] in ('join_hung', 'extra_task_done_accepted'):
                ctx.violation('%s in %s' % (e['k'], h['name']), 'observed:queue:' + e['k'], replay=h['name'])
    ctx.assumptions += ['Queue.tla is checked at design level (no spec-to-code replay: Queue builds '
                        'its own pipe and feeder thread); the code is bound by recorded histories '
                        'judged with interval-sound formulas; CLOCK_MONOTONIC is system-wide']
