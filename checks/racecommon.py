"""Race.tla -- the parent's three outcome writers at check / set granularity (C01)."""
from harness.race import RaceAdapter
from lib import recipe

INV = ['OutcomeStable', 'CallbacksOnce']
FIRST_WRITER_WINS = 'TRUE'         # what ApplyResult._set does on the tree (since the F9 repair)


def run(ctx):
    for label, writers in (('race-3', '{"result", "timeout", "lost"}'), ('race-rt', '{"result", "timeout"}')):
        c = dict(Writers=writers, FirstWriterWins=FIRST_WRITER_WINS)
        res = recipe.tlc_only(label, 'Race', constants=c, invariants=INV, emit=True, timeout=300, heap='1g')
        g = recipe.account(ctx, label, 'Race', c, res, emit=True)
        recipe.conform(ctx, label, g, RaceAdapter, mon_module='RaceMonitor', mon_invariants=INV,
                       mon_constants=c)
