"""Race.tla -- the parent's three outcome writers at check / set granularity (C01)."""
from harness.race import RaceAdapter
from lib import recipe

INV = ['OutcomeStable', 'CallbacksOnce', 'PublishedBeforeCallback', 'SoftOnlyIfUnprocessed',
       'SoftSignalMatchesCallback', 'MutexIsCallback']
FIRST_WRITER_WINS = 'TRUE'         # what ApplyResult._set does on the tree (since the F9 repair)


def run(ctx, prop='C01'):
    units = (('race-3', '{"result", "timeout", "lost"}'), ('race-rt', '{"result", "timeout"}'),
             ('race-soft', '{"result", "soft"}'), ('race-4', '{"result", "timeout", "lost", "soft"}'))
    if prop == 'C06':
        units = units[2:]
    for label, writers in units:
        c = dict(Writers=writers, FirstWriterWins=FIRST_WRITER_WINS)
        res = recipe.tlc_only(label, 'Race', constants=c, invariants=INV, emit=True, timeout=300, heap='1g')
        g = recipe.account(ctx, label, 'Race', c, res, emit=True)
        recipe.conform(ctx, label, g, RaceAdapter, mon_module='RaceMonitor', mon_invariants=INV,
                       mon_constants=c)
