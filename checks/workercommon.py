"""Worker.tla configurations shared by C03 (job protocol), C08 (termination signal, worker
side), C09 (quota / exit after consumption), C12 (unserialisable result)."""
from harness.worker import WorkerAdapter
from lib import recipe, tlc

# what the repository's Worker does about a termination signal inside task code
DEV_SWALLOW = False

BASE = dict(NJobs=2, Quota=0, Synack=False, GuardLimit=2, Kinds=['ok', 'raise'], Signals=False,
            Cancels=False, Refusals=False, DevSwallow=DEV_SWALLOW)


def cfg(**kw):
    c = dict(BASE)
    c.update(kw)
    return c


def tla_consts(c):
    o = {}
    for k, v in c.items():
        o[k] = ('{' + ', '.join('"%s"' % x for x in v) + '}') if k == 'Kinds' else tlc.tla_val(v)
    return o


class Maker:
    def __init__(self, c):
        self.c = c

    def __call__(self):
        return WorkerAdapter(self.c)


ALLK = ['ok', 'raise', 'raise_deep', 'baseexc', 'unpicklable', 'memover']
UNS = ['unpicklable', 'unpicklable_deep', 'unpicklable_badrepr']

FORMULAS = {
    'C03': (['StreamShape', 'OneResultPerJob', 'AckCarries', 'ResultOnlyAfterAccept',
             'NackHonoured', 'CountsExecutedOnly', 'QuotaRespected', 'AcksAnswered', 'RunHasResult'],
            ['CancelRefused', 'EncodingErrorReported']),
    'C08': (['ExitCallbackOnce', 'SignalLeadsOut'],
            ['SignalMeansNoMoreJobs', 'SignalMeansNoGuard']),
    'C09': (['QuotaRespected', 'QuotaExitStatus', 'RecycleOnlyWhenDue', 'CountsExecutedOnly'],
            ['ExitAfterConsumed']),
    'C12': (['StreamShape', 'OneResultPerJob', 'RunHasResult'], ['EncodingErrorReported']),
    'C02': (['StreamShape', 'OneResultPerJob', 'ResultOnlyAfterAccept', 'RunHasResult', 'CountsExecutedOnly'], []),
}

SCEN = {
    'C03': dict(
        quick=dict(small=[cfg(Kinds=['ok', 'raise', 'raise_deep', 'baseexc', 'unpicklable']),
                          cfg(Quota=1, Synack=True, Cancels=True, Kinds=['ok']),
                          cfg(NJobs=3, Synack=True, Refusals=True, Kinds=['ok']),
                          cfg(NJobs=2, Synack=False, Refusals=True, Kinds=['ok'])],
                   walks=cfg(NJobs=3, Quota=2, Synack=True, Cancels=True, Refusals=True, Kinds=ALLK,
                             Signals=True)),
        thorough=dict(small=[cfg(NJobs=3, Kinds=['ok', 'raise', 'baseexc', 'unpicklable']),
                             cfg(NJobs=4, Quota=2, Synack=True, Refusals=True, Cancels=True, Kinds=['ok']),
                             cfg(NJobs=3, Quota=2, Synack=True, Cancels=True, Kinds=['ok', 'raise']),
                             cfg(NJobs=2, Quota=1, Synack=True, Cancels=True, Kinds=ALLK)],
                      walks=cfg(NJobs=4, Quota=3, Synack=True, Cancels=True, Kinds=ALLK,
                                Signals=True))),
    'C02': dict(
        quick=dict(small=[cfg(Kinds=['ok', 'raise', 'raise_deep'])],
                   walks=cfg(NJobs=3, Kinds=['ok', 'raise', 'raise_deep', 'baseexc'])),
        thorough=dict(small=[cfg(NJobs=3, Kinds=['ok', 'raise', 'raise_deep'])],
                      walks=cfg(NJobs=4, Quota=3, Kinds=['ok', 'raise', 'raise_deep', 'baseexc']))),
    'C08': dict(
        quick=dict(small=[cfg(Kinds=['ok'], Signals=True),
                          cfg(Quota=1, Synack=True, Kinds=['ok'], Signals=True)],
                   walks=cfg(NJobs=3, Quota=2, Synack=True, Cancels=True, Kinds=ALLK,
                             Signals=True)),
        thorough=dict(small=[cfg(NJobs=3, Kinds=['ok', 'raise'], Signals=True),
                             cfg(NJobs=2, Quota=2, Synack=True, Cancels=True, Kinds=['ok'],
                                 Signals=True)],
                      walks=cfg(NJobs=4, Quota=3, Synack=True, Cancels=True, Kinds=ALLK,
                                Signals=True))),
    'C09': dict(
        quick=dict(small=[cfg(Quota=1, Kinds=['ok', 'memover']),
                          cfg(NJobs=3, Quota=2, Kinds=['ok'])],
                   walks=cfg(NJobs=4, Quota=3, Kinds=ALLK, Signals=True)),
        thorough=dict(small=[cfg(NJobs=3, Quota=2, Kinds=['ok', 'raise', 'memover']),
                             cfg(NJobs=3, Quota=1, Synack=True, Kinds=['ok'])],
                      walks=cfg(NJobs=5, Quota=3, Kinds=ALLK, Signals=True, Synack=True))),
    'C12': dict(
        quick=dict(small=[cfg(Kinds=['ok', 'raise_deep'] + UNS)],
                   walks=cfg(NJobs=3, Quota=2, Kinds=ALLK + UNS[1:])),
        thorough=dict(small=[cfg(NJobs=3, Quota=2, Kinds=['ok', 'raise'] + UNS)],
                      walks=cfg(NJobs=4, Quota=3, Kinds=ALLK + UNS[1:], Synack=True))),
}


def run(ctx, pid):
    from concurrent.futures import ThreadPoolExecutor
    thorough = ctx.tier == 'thorough'
    inv, props = FORMULAS[pid]
    t = SCEN[pid]['thorough' if thorough else 'quick']
    units = [('worker-small%d' % i, 'small', c) for i, c in enumerate(t['small'])]
    units.append(('worker-walks', 'walks', t['walks']))
    ctx.assumptions.append('Worker.__call__ runs on a helper thread with strict baton passing; '
                           'signals are delivered by calling the real handler at a blocking point')

    def launch(u):
        label, kind, c = u
        k = dict(constants=tla_consts(c), invariants=inv, properties=props, emit=True,
                 timeout=1500, heap='3g')
        if kind == 'walks':
            k.update(simulate=4000 if thorough else 500, depth=40, seed=ctx.seed, budget_ok=True)
        return recipe.tlc_only(label, 'Worker', **k)

    with ThreadPoolExecutor(max_workers=4) as ex:
        futs = [ex.submit(launch, u) for u in units]
        for u, f in zip(units, futs):
            label, kind, c = u
            src = recipe.account(ctx, label, 'Worker', tla_consts(c), f.result(), emit=True,
                                 simulate=(kind == 'walks'))
            if kind == 'small':
                ctx.sample({'unit': label, 'constants': c, 'states': len(src.state),
                            'edges': src.n_edges}, limit=8)
            elif src:
                ctx.sample({'unit': label, 'walk': [e['act'] for e in src[0]][:25]}, limit=8)
            recipe.conform(ctx, label, src, Maker(c), mon_module='WorkerMonitor',
                           mon_invariants=inv, mon_properties=props,
                           mon_constants=tla_consts(c), monitor_all=(kind == 'walks'))
