"""C01 -- every submitted job resolves exactly once, with its own outcome."""
from checks import poolparts, c02, feedcommon, poolcommon, poolreal, racecommon

# the clauses of C01 that speak about the parts of map / imap jobs, in MapAsm.tla's terms
PARTS = ['MapCallbacksOnce', 'MapReadyWhen', 'MapComplete', 'ImapComplete', 'ImapuNoDupNoAlien',
         'ImapItemExact', 'MapStable']


def main(ctx):
    racecommon.run(ctx)            # the parent's three outcome writers at check / set granularity
    feedcommon.run(ctx, 'C01')
    poolcommon.run(ctx, 'C01')
    poolparts.run(ctx, 'C01')         # multi-part jobs under supervision
    c02.main(ctx, only=PARTS, known=False)
    poolreal.run(ctx, 'C01')
