"""C01 -- every submitted job resolves exactly once, with its own outcome."""
from checks import feedcommon, poolcommon, poolreal


def main(ctx):
    feedcommon.run(ctx, 'C01')
    poolcommon.run(ctx, 'C01')
    poolreal.run(ctx, 'C01')
