"""Feed.tla (TaskHandler) -- shared by C01 (a task that cannot be sent) and C07 (the
feeder stops with its sentinels)."""
from concurrent.futures import ThreadPoolExecutor

from harness.feed import FeedAdapter
from lib import recipe

FORMULAS = {
    'C01': (['FailOwn', 'ErrCbOnce', 'SentInOrder', 'FedOrFailed', 'LenRight', 'HandlerAlive'], []),
    'C07': (['Sentinels', 'SentinelsOnlyLeaving', 'HandlerAlive'], ['NoFeedAfterStop']),
    'C08': (['Sentinels', 'SentinelsOnlyLeaving', 'HandlerAlive'], ['NoFeedAfterStop', 'StopSeenAtOnce']),
}
ALLK = '{"apply", "map", "imap", "imapu"}'
DEV = 'FALSE'      # DevJobZero: the tree's behaviour


def consts(nj, mt, pf, disc, kinds=ALLK):
    return dict(NJobs=str(nj), Kinds=kinds, MaxTasks=str(mt), NWorkers='2', MaxPutFail=str(pf),
                MaxDiscard=str(disc), DevJobZero=DEV)


def run(ctx, pid):
    thorough = ctx.tier == 'thorough'
    inv, props = FORMULAS[pid]
    wide = consts(3, 2, 2, 1) if thorough else consts(2, 2, 2, 1)
    small = consts(2, 2, 2, 1) if thorough else consts(2, 1, 1, 1)
    walks = consts(4, 3, 3, 2) if thorough else consts(3, 2, 2, 1)
    live = consts(2, 2, 1, 1) if thorough else consts(2, 1, 1, 0)

    def t_wide():
        return recipe.tlc_only('feed-wide', 'Feed', constants=wide, invariants=inv, properties=props,
                               workers=6, timeout=1500, heap='6g', budget_ok=True)

    def t_small():
        return recipe.tlc_only('feed-small', 'Feed', constants=small, invariants=inv, properties=props,
                               emit=True, timeout=1800, heap='4g')

    def t_walks():
        return recipe.tlc_only('feed-walks', 'Feed', constants=walks, invariants=inv, properties=props,
                               emit=True, simulate=3000 if thorough else 500, depth=40, seed=ctx.seed,
                               timeout=1200, heap='3g', budget_ok=True)

    def t_live():
        return recipe.tlc_only('feed-live', 'Feed', constants=live, invariants=[],
                               properties=['StopsWhenClosed'], workers=4, spec='FairSpec', timeout=1800,
                               heap='4g')

    with ThreadPoolExecutor(4) as ex:
        fw, fs, fk = ex.submit(t_wide), ex.submit(t_small), ex.submit(t_walks)
        fl = ex.submit(t_live) if pid in ('C07', 'C08') else None
        recipe.account(ctx, 'feed-wide', 'Feed', wide, fw.result())
        g = recipe.account(ctx, 'feed-small', 'Feed', small, fs.result(), emit=True)
        ctx.sample({'unit': 'feed-small', 'constants': small, 'states': len(g.state), 'edges': g.n_edges})
        recipe.conform(ctx, 'feed-small', g, FeedAdapter, mon_module='FeedMonitor', mon_invariants=inv,
                       mon_properties=props, mon_constants=small, sample=None if thorough else 60000)
        behs = recipe.account(ctx, 'feed-walks', 'Feed', walks, fk.result(), emit=True, simulate=True)
        if behs:
            ctx.sample({'feed_walk': [e['act']['name'] for e in behs[0]][:24]})
        recipe.conform(ctx, 'feed-walks', behs, FeedAdapter, mon_module='FeedMonitor', mon_invariants=inv,
                       mon_properties=props, mon_constants=walks, monitor_all=True)
        if fl is not None:
            recipe.account(ctx, 'feed-live', 'Feed', live, fl.result())
