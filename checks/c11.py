"""C11 -- replacement of abnormally exited workers is rate limited."""
from checks import poolcommon, poolreal


def main(ctx):
    poolcommon.run(ctx, 'C11')
    poolreal.run(ctx, 'C11')      # real pool with its supervisor thread: budget enforced / reset by a job
