"""Pool.tla configurations and the shared recipe for the pool-level properties
(C01, C04, C05, C06, C09, C10, C11)."""
from harness.pool import PoolAdapter
from lib import recipe, tlc

BASE = dict(NJobs=2, Procs=2, MaxPid=3, MaxTime=3, PoolSoft=0, PoolHard=0,
            JobLimits=[(0, 0)], Grace=1, Quota=0, PutLocks=True, MaxR=0, MaxT=1,
            Statuses=[-9], Results=['ok', 'err'], MaxDup=0, UserCalls=[], Periodic=False,
            DevRemark=False, DevShrinkSame=False, FineScan=False, DevSoftNoReady=False, TolLateAckStatus=True, TolLateReadySlot=True,
            DevNoCreditLate=True, HookPause=False)


ADAPTER_ONLY = ('CbRaise',)      # the success callback of odd jobs raises an exception the pool lets through


def tla_consts(c):
    out = {}
    for k, v in c.items():
        if k in ADAPTER_ONLY:
            continue
        if k in ('JobLimits',):
            out[k] = '{' + ', '.join('<<%d, %d>>' % t for t in v) + '}'
        elif k in ('Statuses', 'Results', 'UserCalls'):
            out[k] = '{' + ', '.join(tlc.tla_val(x) for x in v) + '}'
        else:
            out[k] = tlc.tla_val(v)
    return out


def cfg(**kw):
    c = dict(BASE)
    c.update(kw)
    return c


INV = ['CallbacksOnce', 'ResolvedHasCallback', 'CacheExact', 'LostOnlyIfReal',
       'NoFalseTimeout', 'SoftOnce', 'TimeoutCallbackOnce', 'TimeoutCallbackArgs', 'NeverAbove',
       'DistinctIdx', 'QuotaRespected', 'SemBounded', 'SlotsConserved', 'InFlightBound',
       'RestartBudget', 'LostNotLate', 'HardWithinScan', 'LostOutcomeReal']
PROPS = ['OutcomeStable', 'OwnOutcome', 'LateIgnored', 'RevokedIsTerminated', 'LostNotEarly', 'LostMarkRight',
         'ReapAttributes',
         'VictimGone', 'SoftOnlyIfDue', 'SoftSignalMatchesCallback', 'SoftToRunner', 'HardDelivered',
         'SoftDelivered', 'SnapFresh',
         'SizeAfterMaintain', 'CleanExitsFree', 'NoForkOnRaise', 'AckResetsBudget', 'CreditOnReady']


# open known findings: (tolerance constant, formulas that fail without it)
KNOWN = {
    'C04': [('TolLateAckStatus', ['LostMarkRight'])],
    'C10': [('TolLateReadySlot', ['SlotsConserved'])],
}


# formulas that exist only in the monitor (they need ghost state computed from observations)
MON_ONLY = {'C11': ['BudgetEnforced']}


class Maker:
    def __init__(self, c):
        self.c = c

    def __call__(self):
        return PoolAdapter(self.c)


# ---------------------------------------------------------------------------
# formulas per property
FORMULAS = {
    'C01': (['CallbacksOnce', 'ResolvedHasCallback', 'CacheExact', 'AckBeforeResult', 'QuietResolved'],
            ['OutcomeStable', 'OwnOutcome', 'LateIgnored', 'RevokedIsTerminated', 'ReapAttributes']),
    'C04': (['LostOnlyIfReal', 'LostNotLate', 'LostOutcomeReal', 'QuietResolved'],
            ['LostMarkRight', 'LostNotEarly', 'ReapAttributes', 'SizeAfterMaintain', 'OwnOutcome']),
    'C05': (['NoFalseTimeout', 'HardWithinScan', 'TimeoutCallbackOnce', 'TimeoutCallbackArgs'],
            ['VictimGone', 'OwnOutcome', 'SizeAfterMaintain', 'HardDelivered', 'SnapFresh']),
    'C06': (['SoftOnce', 'TimeoutCallbackArgs'],
            ['SoftOnlyIfDue', 'SoftSignalMatchesCallback', 'SoftToRunner', 'SoftDelivered', 'SnapFresh']),
    'C09': (['NeverAbove', 'DistinctIdx', 'QuotaRespected', 'LostOutcomeReal'],
            ['SizeAfterMaintain', 'CleanExitsFree', 'NoForkOnRaise', 'CreditOnReady']),
    # the part of close()/join() that Pool.tla speaks about: nobody has to wait out the guard
    'C07': (['QuietResolved', 'QuotaRespected'], ['CreditOnReady', 'OwnOutcome']),
    'C10': (['SemBounded', 'SlotsConserved', 'InFlightBound'],
            ['VictimGone']),     # the slot of a job that hit its hard limit comes back with its worker's replacement
    'C11': (['RestartBudget'], ['CleanExitsFree', 'NoForkOnRaise', 'AckResetsBudget']),
}

U_ALL = ['Discard', 'TerminateJob', 'Close', 'Grow', 'Shrink']

# scenarios: name -> properties served + constants per tier:
#   wide  : TLC only, several cores      small : every transition replayed into the real Pool
#   walks : random behaviours of a larger instance, replayed
SCEN = {
    'faults': dict(
        serves=['C01', 'C04', 'C10'],
        quick=dict(
            wide=cfg(NJobs=2, Procs=2, MaxPid=3, MaxTime=2, Statuses=[-9, 1]),
            small=[cfg(NJobs=2, Procs=1, MaxPid=2, MaxTime=1, Statuses=[-9, 0], MaxDup=1),
                   cfg(NJobs=2, Procs=1, MaxPid=2, MaxTime=0, Statuses=[-9], Results=['ok'], CbRaise=True)],
            walks=cfg(NJobs=3, Procs=2, MaxPid=4, MaxTime=4, Statuses=[-9, 1, 0, 155], MaxDup=1, CbRaise=True)),
        thorough=dict(
            wide=cfg(NJobs=2, Procs=2, MaxPid=3, MaxTime=3, Statuses=[-9, 1], MaxDup=1),
            small=[cfg(NJobs=2, Procs=1, MaxPid=2, MaxTime=2, Statuses=[-9, 1], MaxDup=1),
                   cfg(NJobs=2, Procs=2, MaxPid=3, MaxTime=1, Statuses=[-9], Results=['ok'])],
            walks=cfg(NJobs=3, Procs=2, MaxPid=5, MaxTime=5, Statuses=[-9, 1, 0], MaxDup=2, CbRaise=True))),
    'usercalls': dict(
        serves=['C01', 'C09', 'C10'],
        quick=dict(
            wide=cfg(NJobs=1, Procs=2, MaxPid=3, MaxTime=1, Statuses=[-9], Results=['ok'],
                     UserCalls=U_ALL),
            small=[cfg(NJobs=1, Procs=2, MaxPid=3, MaxTime=0, Statuses=[-9], Results=['ok'],
                       UserCalls=['Grow', 'Shrink']),
                   cfg(NJobs=0, Procs=2, MaxPid=3, MaxTime=0, Statuses=[-9], Results=['ok'],
                       UserCalls=['Grow', 'Shrink'], HookPause=True),
                   cfg(NJobs=1, Procs=1, MaxPid=2, MaxTime=1, Statuses=[-9], Results=['ok'],
                       UserCalls=['Discard', 'TerminateJob', 'Close'])],
            walks=cfg(NJobs=3, Procs=2, MaxPid=5, MaxTime=3, Statuses=[-9, 1], UserCalls=U_ALL,
                      HookPause=True)),
        thorough=dict(
            wide=cfg(NJobs=2, Procs=2, MaxPid=3, MaxTime=1, Statuses=[-9], Results=['ok'],
                     UserCalls=U_ALL),
            small=[cfg(NJobs=1, Procs=2, MaxPid=3, MaxTime=1, Statuses=[-9], Results=['ok'],
                       UserCalls=['Grow', 'Shrink', 'TerminateJob']),
                   cfg(NJobs=0, Procs=2, MaxPid=4, MaxTime=0, Statuses=[-9], Results=['ok'],
                       UserCalls=['Grow', 'Shrink'], HookPause=True),
                   cfg(NJobs=2, Procs=1, MaxPid=2, MaxTime=1, Statuses=[-9], Results=['ok'],
                       UserCalls=['Discard', 'TerminateJob', 'Close'])],
            walks=cfg(NJobs=3, Procs=2, MaxPid=6, MaxTime=4, Statuses=[-9, 1], UserCalls=U_ALL,
                      HookPause=True))),
    # terminate_job() with two workers: the revoked worker is not always the first of the list, and
    # another worker may die before the same supervision pass
    'revoke': dict(
        serves=['C01'],
        quick=dict(
            wide=cfg(NJobs=2, Procs=2, MaxPid=4, MaxTime=0, Statuses=[-9], Results=['ok'], PutLocks=False,
                     UserCalls=['TerminateJob']),
            small=[],
            walks=cfg(NJobs=2, Procs=2, MaxPid=5, MaxTime=2, Statuses=[-9], Results=['ok'], PutLocks=False,
                      UserCalls=['TerminateJob'])),
        thorough=dict(
            wide=cfg(NJobs=2, Procs=2, MaxPid=4, MaxTime=1, Statuses=[-9], Results=['ok'], PutLocks=False,
                     UserCalls=['TerminateJob']),
            small=[],
            walks=cfg(NJobs=3, Procs=3, MaxPid=7, MaxTime=3, Statuses=[-9, 1], Results=['ok'], PutLocks=False,
                      UserCalls=['TerminateJob']))),
    'limits': dict(
        serves=['C05', 'C06', 'C01', 'C10'],
        quick=dict(
            wide=cfg(NJobs=2, Procs=1, MaxPid=2, MaxTime=4, JobLimits=[(0, 0), (1, 2), (0, 1)],
                     PoolSoft=2, PoolHard=3, Statuses=[-9], Results=['ok'], Periodic=True),
            small=[cfg(NJobs=1, Procs=1, MaxPid=2, MaxTime=3, JobLimits=[(0, 0), (1, 2), (0, 1)],
                       PoolSoft=1, PoolHard=3, Statuses=[-9], Results=['ok'])],
            walks=cfg(NJobs=3, Procs=2, MaxPid=4, MaxTime=6,
                      JobLimits=[(0, 0), (1, 2), (0, 1), (2, 0)], PoolSoft=2, PoolHard=4,
                      Statuses=[-9], Periodic=True)),
        thorough=dict(
            wide=cfg(NJobs=2, Procs=2, MaxPid=3, MaxTime=4, JobLimits=[(0, 0), (1, 2), (0, 1)],
                     PoolSoft=2, PoolHard=3, Statuses=[-9], Results=['ok'], Periodic=True),
            small=[cfg(NJobs=2, Procs=1, MaxPid=2, MaxTime=3, JobLimits=[(0, 0), (1, 2), (0, 1)],
                       PoolSoft=1, PoolHard=3, Statuses=[-9], Results=['ok']),
                   cfg(NJobs=1, Procs=1, MaxPid=2, MaxTime=4, JobLimits=[(0, 0), (2, 3), (3, 1)],
                       PoolSoft=0, PoolHard=2, Statuses=[-9])],
            walks=cfg(NJobs=3, Procs=2, MaxPid=5, MaxTime=7,
                      JobLimits=[(0, 0), (1, 2), (0, 1), (2, 0), (3, 2)], PoolSoft=2, PoolHard=4,
                      Statuses=[-9, 1], Periodic=True))),
    'finescan': dict(
        serves=['C05', 'C06', 'C01'],
        quick=dict(
            wide=cfg(NJobs=2, Procs=1, MaxPid=2, MaxTime=3, JobLimits=[(1, 2), (0, 1)], PoolSoft=1,
                     Statuses=[-9], Results=['ok'], FineScan=True),
            small=[cfg(NJobs=1, Procs=1, MaxPid=2, MaxTime=2, JobLimits=[(1, 2), (0, 1)],
                       Statuses=[-9], Results=['ok'], FineScan=True),
                   cfg(NJobs=2, Procs=1, MaxPid=2, MaxTime=1, JobLimits=[(1, 0), (0, 1)],
                       Statuses=[-9], Results=['ok'], FineScan=True)],
            walks=cfg(NJobs=3, Procs=2, MaxPid=4, MaxTime=5, JobLimits=[(0, 0), (1, 2), (0, 1), (2, 0)],
                      PoolSoft=2, PoolHard=4, Statuses=[-9], FineScan=True)),
        thorough=dict(
            wide=cfg(NJobs=2, Procs=2, MaxPid=3, MaxTime=3, JobLimits=[(1, 2), (0, 1), (0, 0)],
                     PoolSoft=1, PoolHard=3, Statuses=[-9], Results=['ok'], FineScan=True),
            small=[cfg(NJobs=2, Procs=1, MaxPid=2, MaxTime=3, JobLimits=[(1, 2), (0, 1)], PoolSoft=1,
                       Statuses=[-9], Results=['ok'], FineScan=True)],
            walks=cfg(NJobs=3, Procs=2, MaxPid=5, MaxTime=6,
                      JobLimits=[(0, 0), (1, 2), (0, 1), (2, 0), (3, 2)], PoolSoft=2, PoolHard=4,
                      Statuses=[-9, 1], FineScan=True))),
    'losstiming': dict(
        serves=['C04'],
        quick=dict(
            wide=cfg(NJobs=2, Procs=2, MaxPid=3, MaxTime=3, Statuses=[-9, 1], Results=['ok'],
                     Grace=1, Periodic=True),
            small=[cfg(NJobs=1, Procs=1, MaxPid=2, MaxTime=3, Statuses=[-9, 1, 155, 0], Results=['ok'],
                       Grace=1, Periodic=True)],
            walks=cfg(NJobs=3, Procs=2, MaxPid=4, MaxTime=6, Statuses=[-9, 1, -11], Grace=2,
                      Periodic=True)),
        thorough=dict(
            wide=cfg(NJobs=2, Procs=2, MaxPid=3, MaxTime=4, Statuses=[-9, 1], Results=['ok'],
                     Grace=1, Periodic=True),
            small=[cfg(NJobs=2, Procs=1, MaxPid=2, MaxTime=3, Statuses=[-9, 1], Results=['ok'],
                       Grace=1, Periodic=True),
                   cfg(NJobs=1, Procs=1, MaxPid=2, MaxTime=5, Statuses=[-15, 70], Grace=2,
                       Periodic=True)],
            walks=cfg(NJobs=3, Procs=3, MaxPid=6, MaxTime=8, Statuses=[-9, 1, -11, 70], Grace=2,
                      Periodic=True))),
    'recycle': dict(
        serves=['C09', 'C04', 'C10'],
        quick=dict(
            wide=cfg(NJobs=2, Procs=2, MaxPid=4, MaxTime=1, Quota=1, Statuses=[-9], Results=['ok']),
            small=[cfg(NJobs=2, Procs=1, MaxPid=3, MaxTime=1, Quota=1, Statuses=[-9],
                       Results=['ok'], MaxR=1, MaxT=2)],
            walks=cfg(NJobs=4, Procs=2, MaxPid=6, MaxTime=3, Quota=2, Statuses=[-9, 1], MaxR=2, MaxT=3)),
        thorough=dict(
            wide=cfg(NJobs=3, Procs=2, MaxPid=4, MaxTime=2, Quota=1, Statuses=[-9], Results=['ok']),
            small=[cfg(NJobs=2, Procs=1, MaxPid=3, MaxTime=2, Quota=1, Statuses=[-9],
                       Results=['ok']),
                   cfg(NJobs=3, Procs=1, MaxPid=3, MaxTime=1, Quota=2, Statuses=[1],
                       Results=['ok'])],
            walks=cfg(NJobs=5, Procs=2, MaxPid=8, MaxTime=4, Quota=2, Statuses=[-9, 1, 0]))),
    # workers of several generations (quota exits, deaths) whose results must all be credited
    'credits': dict(
        serves=['C07'],
        quick=dict(
            wide=cfg(NJobs=3, Procs=1, MaxPid=3, MaxTime=1, Quota=2, Statuses=[-9], Results=['ok'],
                     UserCalls=['Close']),
            small=[cfg(NJobs=2, Procs=1, MaxPid=3, MaxTime=0, Quota=1, Statuses=[-9], Results=['ok'],
                       UserCalls=['Close'])],
            walks=cfg(NJobs=4, Procs=2, MaxPid=6, MaxTime=3, Quota=2, Statuses=[-9, 1], UserCalls=['Close'])),
        thorough=dict(
            wide=cfg(NJobs=3, Procs=2, MaxPid=4, MaxTime=1, Quota=1, Statuses=[-9], Results=['ok'],
                     UserCalls=['Close']),
            small=[cfg(NJobs=3, Procs=1, MaxPid=3, MaxTime=1, Quota=2, Statuses=[-9], Results=['ok'],
                       UserCalls=['Close'])],
            walks=cfg(NJobs=5, Procs=2, MaxPid=8, MaxTime=4, Quota=2, Statuses=[-9, 1, 0],
                      UserCalls=['Close']))),
    'restarts': dict(
        serves=['C11', 'C09'],
        quick=dict(
            wide=cfg(NJobs=1, Procs=2, MaxPid=4, MaxTime=2, MaxR=1, MaxT=2, Statuses=[1, 155],
                     Results=['ok']),
            small=[cfg(NJobs=1, Procs=1, MaxPid=3, MaxTime=3, MaxR=1, MaxT=2, Statuses=[1, 155],
                       Results=['ok']),
                   # an acceptance resets the count even if the job has left the table meanwhile
                   cfg(NJobs=1, Procs=1, MaxPid=3, MaxTime=1, MaxR=1, MaxT=2, Statuses=[1], Results=['ok'],
                       UserCalls=['Discard']),
                   # three slots, several exits per supervision pass (slot index allocation)
                   cfg(NJobs=0, Procs=3, MaxPid=5, MaxTime=0, MaxR=0, Statuses=[1, 155], Results=['ok'])],
            walks=cfg(NJobs=2, Procs=2, MaxPid=7, MaxTime=6, MaxR=3, MaxT=3,
                      Statuses=[1, 155, 0, -9], UserCalls=['Discard'])),
        thorough=dict(
            wide=cfg(NJobs=1, Procs=2, MaxPid=5, MaxTime=3, MaxR=2, MaxT=2, Statuses=[1, 155, 0],
                     Results=['ok']),
            small=[cfg(NJobs=1, Procs=1, MaxPid=4, MaxTime=4, MaxR=2, MaxT=2, Statuses=[1, 155],
                       Results=['ok']),
                   cfg(NJobs=1, Procs=2, MaxPid=4, MaxTime=2, MaxR=1, MaxT=1, Statuses=[1, 0],
                       Results=['ok'])],
            walks=cfg(NJobs=2, Procs=3, MaxPid=9, MaxTime=8, MaxR=3, MaxT=3,
                      Statuses=[1, 155, 0, -9]))),
}


def run(ctx, pid):
    from concurrent.futures import ThreadPoolExecutor
    thorough = ctx.tier == 'thorough'
    inv, props = FORMULAS[pid]
    ctx.assumptions += [
        'workers die only while running task code or between jobs (W_Die pcs)',
        'the result pipe is FIFO; SIGKILL ends a process; waitpid reports the true status',
        'the worker environment of Pool.tla is the abstraction validated against the real '
        'Worker.workloop by C03',
    ]
    units = []      # (label, kind, consts)
    import os
    only = os.environ.get('VERIF_SCEN')          # development aid: one scenario only
    for name, sc in SCEN.items():
        if pid not in sc['serves'] or (only and name not in only.split(',')):
            continue
        t = sc['thorough' if thorough else 'quick']
        units.append(('pool-%s-wide' % name, 'wide', t['wide']))
        for i, c in enumerate(t['small']):
            units.append(('pool-%s-small%d' % (name, i), 'small', c))
        units.append(('pool-%s-walks' % name, 'walks', t['walks']))
    nwalks = 5000 if thorough else 500
    depth = 45 if thorough else 30

    def launch(u):
        label, kind, c = u
        k = dict(constants=tla_consts(c), invariants=inv, properties=props)
        if kind == 'wide':
            return recipe.tlc_only(label, 'Pool', workers=6 if thorough else 4,
                                   timeout=900 if thorough else 600, heap='6g', budget_ok=True, **k)
        if kind == 'small':
            return recipe.tlc_only(label, 'Pool', emit=True, timeout=3000 if thorough else 600,
                                   heap='6g' if thorough else '3g', **k)
        return recipe.tlc_only(label, 'Pool', emit=True, simulate=nwalks, depth=depth,
                               seed=ctx.seed, timeout=1200, heap='2g', budget_ok=True, **k)

    with ThreadPoolExecutor(max_workers=3 if thorough else 6) as ex:
        futs = [ex.submit(launch, u) for u in units]
        for u, f in zip(units, futs):
            label, kind, c = u
            if any(v['signature'].startswith('hang:') for v in ctx.violations):
                # the implementation hangs: the verdict is in; every further replay would only
                # cost one time-out per path
                if f.cancel():
                    continue
                f.result()
                continue
            res = f.result()
            src = recipe.account(ctx, label, 'Pool', tla_consts(c), res,
                                 emit=(kind != 'wide'), simulate=(kind == 'walks'))
            if kind == 'wide':
                continue
            sample = None
            if kind == 'small':
                if not thorough and src.n_edges > 60000:
                    sample = 60000
                for k in src.inits[:1]:
                    if src.out[k]:
                        ctx.sample({'unit': label, 'constants': c,
                                    'first_edge': src.out[k][0][0],
                                    'states': len(src.state), 'edges': src.n_edges}, limit=8)
            elif src:
                ctx.sample({'unit': label, 'walk': [e['act'] for e in src[0]][:25]}, limit=8)
            # the monitor must be able to represent whatever the real pool did, e.g. more
            # worker processes than the model instance allows for
            mc = dict(c, MaxPid=c['MaxPid'] + 8)
            recipe.conform(ctx, label, src, Maker(c), mon_module='PoolMonitor',
                           mon_invariants=inv + MON_ONLY.get(pid, []), mon_properties=props,
                           mon_constants=tla_consts(mc), sample=sample,
                           monitor_all=(kind == 'walks'),
                           known=KNOWN.get(pid, ()) if kind == 'walks' else ())
            del src
