"""Iter.tla -- the consumer of an imap / imap_unordered iterator against the pool's deliveries,
at the granularity of the iterator's condition variable (C02, C01)."""
from harness.iter import IterAdapter
from lib import recipe

INV = ['InOrder', 'NoDupNoAlien', 'StopOnlyAtEnd', 'NoLostWakeup', 'Conserved']
PROPS = ['TimeoutOnlyIfTimedOut']


class Maker:
    def __init__(self, c):
        self.c = c

    def __call__(self):
        return IterAdapter(self.c)


def run(ctx, prop='C02'):
    thorough = ctx.tier == 'thorough'
    units = []
    for kind in ('imap', 'imapu'):
        units.append(('iter-%s' % kind, dict(Kind=kind, N=2, Fails=[2], Timed=[False, True], MaxCalls=4)))
        if thorough:
            units.append(('iter-%s-3' % kind, dict(Kind=kind, N=3, Fails=[1], Timed=[False, True], MaxCalls=5)))
    for label, c in units:
        tc = dict(Kind='"%s"' % c['Kind'], N=str(c['N']), Fails='{' + ', '.join(map(str, c['Fails'])) + '}',
                  Timed='{' + ', '.join('TRUE' if t else 'FALSE' for t in c['Timed']) + '}',
                  MaxCalls=str(c['MaxCalls']))
        res = recipe.tlc_only(label, 'Iter', constants=tc, invariants=INV, properties=PROPS, emit=True,
                              timeout=600, heap='2g')
        g = recipe.account(ctx, label, 'Iter', tc, res, emit=True)
        ctx.sample({'unit': label, 'constants': c, 'states': len(g.state), 'edges': g.n_edges}, limit=12)
        recipe.conform(ctx, label, g, Maker(c), mon_module='IterMonitor', mon_invariants=INV,
                       mon_properties=PROPS, mon_constants=tc)
