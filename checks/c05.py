"""C05 -- every submitted job resolves exactly once, with its own outcome."""
from checks import poolcommon, poolreal


def main(ctx):
    poolcommon.run(ctx, 'C05')
    poolreal.run(ctx, 'C05')
