"""C14 -- the shared-memory heap never hands out overlapping or misplaced memory."""
from concurrent.futures import ThreadPoolExecutor

from harness.heap import HeapAdapter
from lib import recipe

INV = ['Partition', 'Aligned', 'LargeEnough', 'Coalesced', 'PendingAreLive', 'ArenaSizes']
PROPS = ['NoNeedlessArena', 'BestFit', 'FreedIsReusable', 'PendingDrained']


def consts(align, page, init, sizes, live, arenas, gc):
    return dict(Align=align, Page=page, InitSize=init, Sizes=sizes, MaxLive=live,
                MaxArenas=arenas, MaxGC=gc)


def tla(c):
    o = {k: str(v) for k, v in c.items()}
    o['Sizes'] = '{' + ', '.join(str(s) for s in c['Sizes']) + '}'
    return o


class Maker:
    def __init__(self, c):
        self.c = c

    def __call__(self):
        return HeapAdapter(self.c)


def main(ctx):
    thorough = ctx.tier == 'thorough'
    if thorough:
        wide = consts(2, 8, 8, [0, 1, 3, 4, 8, 9], 3, 3, 1)
        smalls = [consts(2, 8, 8, [1, 3, 4, 9], 3, 2, 1), consts(2, 8, 8, [0, 2, 8], 2, 2, 2)]
        walks = consts(8, 4096, 4096, [0, 1, 7, 8, 9, 100, 4000, 4096, 4097, 9000], 6, 4, 2)
        nwalks = 6000
    else:
        wide = consts(2, 8, 8, [1, 4, 8, 9], 3, 2, 1)
        smalls = [consts(2, 8, 8, [1, 4, 9], 2, 2, 1)]
        walks = consts(8, 4096, 4096, [0, 1, 8, 9, 100, 4096, 4097, 9000], 4, 3, 1)
        nwalks = 300
    ctx.assumptions += ['mmap / tempfile of the OS trusted; scaled constants (alignment 2, page 8) '
                        'run on the real Heap through its own parameters; production constants '
                        '(8, 4096) in the random walks']

    def run_wide():
        return recipe.tlc_only('heap-wide', 'Heap', constants=tla(wide), invariants=INV,
                               properties=PROPS, workers=8, timeout=1800, heap='6g', budget_ok=True)

    def run_small(c):
        return recipe.tlc_only('heap-small', 'Heap', constants=tla(c), invariants=INV,
                               properties=PROPS, emit=True, timeout=2400, heap='4g')

    def run_walks():
        return recipe.tlc_only('heap-walks', 'Heap', constants=tla(walks), invariants=INV,
                               properties=PROPS, emit=True, simulate=nwalks, depth=40 if thorough else 30,
                               seed=ctx.seed, timeout=1500, heap='3g', budget_ok=True)

    minv = INV + ['IndexesConsistent']
    with ThreadPoolExecutor(4) as ex:
        fw = ex.submit(run_wide)
        fs = [ex.submit(run_small, c) for c in smalls]
        fk = ex.submit(run_walks)
        for i, (c, f) in enumerate(zip(smalls, fs)):
            g = recipe.account(ctx, 'heap-small%d' % i, 'Heap', tla(c), f.result(), emit=True)
            ctx.sample({'unit': 'heap-small%d' % i, 'constants': c, 'states': len(g.state),
                        'edges': g.n_edges})
            recipe.conform(ctx, 'heap-small%d' % i, g, Maker(c), mon_module='HeapMonitor',
                           mon_invariants=minv, mon_properties=PROPS, mon_constants=tla(c),
                           sample=None if thorough else 60000)
        behs = recipe.account(ctx, 'heap-walks', 'Heap', tla(walks), fk.result(), emit=True,
                              simulate=True)
        if behs:
            ctx.sample({'walk': [e['act'] for e in behs[0]][:12]})
        recipe.conform(ctx, 'heap-walks', behs, Maker(walks), mon_module='HeapMonitor',
                       mon_invariants=minv, mon_properties=PROPS, mon_constants=tla(walks),
                       monitor_all=True)
        recipe.account(ctx, 'heap-wide', 'Heap', tla(wide), fw.result())
    ctx.exhaustive = True
