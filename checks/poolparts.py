"""PoolParts.tla: one map / imap / imap_unordered job under supervision (loss of a worker that
holds a part, recycling, consumed-result credit), replayed into the real Pool in the fake world.
Serves the multi-part clauses of C01, C04 and C09 (Pool.tla's jobs are single apply_async calls)."""
from harness.poolparts import PartsAdapter
from lib import recipe, tlc

BASE = dict(Kind='map', NParts=2, Procs=2, MaxPid=3, MaxTime=2, Grace=1, Quota=0, Statuses=[-9],
            Results=['ok', 'err'], Periodic=True, DevLostSticky=False, TolImapLoss=True,
            TolMapCredit=True)
ADAPTER_ONLY = ('ChunkSize',)


def cfg(**kw):
    c = dict(BASE)
    c.update(kw)
    return c


def tla_consts(c):
    out = {}
    for k, v in c.items():
        if k in ADAPTER_ONLY:
            continue
        if k in ('Statuses', 'Results'):
            out[k] = '{' + ', '.join(tlc.tla_val(x) for x in v) + '}'
        else:
            out[k] = tlc.tla_val(v)
    return out


FORMULAS = {
    'C01': (['CallbacksOnce', 'MapOutcome', 'PartOnce', 'ImapInOrder', 'ReadyExact', 'LostExact',
             'NoDoubleOutcome', 'QuietComplete'],
            ['OutcomeStable', 'DelivStable']),
    'C04': (['LossOnlyIfReal', 'LostExact', 'NoDoubleOutcome', 'QuietComplete', 'RecycleHarmless'],
            ['LostNotEarly', 'LostMarkRight', 'OutcomeStable']),
    'C09': (['RecycleHarmless', 'OwnersExact', 'CreditExact', 'PartOnce', 'QuietComplete'],
            ['DelivStable']),
}
# open known findings: (tolerance constant, formulas that fail without it)
KNOWN = {
    'C04': [('TolImapLoss', ['QuietComplete'])],
    'C09': [('TolMapCredit', ['CreditExact'])],
}


def units(thorough):
    u = []
    for kind in ('map', 'imap', 'imapu'):
        # one worker slot: every edge replayed (death of the worker holding a part, its replacement,
        # grace period, report; failing parts)
        u.append(('parts-%s-loss' % kind, 'small',
                  cfg(Kind=kind, NParts=2, Procs=1, MaxPid=2, MaxTime=2,
                      Statuses=[-9, 1] if thorough else [-9])))
        if thorough:
            u.append(('parts-%s-loss2' % kind, 'small',
                      cfg(Kind=kind, NParts=2, Procs=2, MaxPid=3, MaxTime=2, Results=['ok'])))
        u.append(('parts-%s-recycle' % kind, 'small',
                  cfg(Kind=kind, NParts=2, Procs=1, MaxPid=3, MaxTime=0, Quota=1, Results=['ok'])))
        u.append(('parts-%s-walks' % kind, 'walks',
                  cfg(Kind=kind, NParts=4, Procs=2, MaxPid=6, MaxTime=5, Grace=2 if thorough else 1,
                      Quota=2, Statuses=[-9, 1, 155])))
        u.append(('parts-%s-walks2' % kind, 'walks',
                  cfg(Kind=kind, NParts=3, Procs=2, MaxPid=4, MaxTime=3, Grace=1, Statuses=[-9])))
    # more parts than workers, several of them failing while others have not even been accepted
    if thorough:
        u.append(('parts-map-fail3', 'small',
                  cfg(Kind='map', NParts=3, Procs=2, MaxPid=2, MaxTime=0, Statuses=[-9], Results=['err'])))
    u.append(('parts-map-chunked', 'small',
              cfg(Kind='map', NParts=2, Procs=1, MaxPid=2, MaxTime=2, Quota=1, ChunkSize=2,
                  Results=['ok', 'err'])))
    return u


class Maker:
    def __init__(self, c):
        self.c = c

    def __call__(self):
        return PartsAdapter(self.c)


def run(ctx, pid):
    from concurrent.futures import ThreadPoolExecutor
    thorough = ctx.tier == 'thorough'
    inv, props = FORMULAS[pid]
    ctx.assumptions += ['PoolParts.tla: the parts of one job are fed by the adapter from the real '
                        'task generator (the feeder thread itself is bound by Feed.tla); the consumer '
                        'of an iterator takes every item as soon as it is there']
    us = units(thorough)
    nwalks = 2000 if thorough else 250

    def launch(u):
        label, kind, c = u
        k = dict(constants=tla_consts(c), invariants=inv, properties=props)
        if kind == 'small':
            return recipe.tlc_only(label, 'PoolParts', emit=True, timeout=1500 if thorough else 600,
                                   heap='4g', **k)
        return recipe.tlc_only(label, 'PoolParts', emit=True, simulate=nwalks, depth=45,
                               seed=ctx.seed, timeout=900, heap='2g', budget_ok=True, **k)

    with ThreadPoolExecutor(max_workers=4) as ex:
        futs = [ex.submit(launch, u) for u in us]
        for u, f in zip(us, futs):
            label, kind, c = u
            if any(v['signature'].startswith('hang:') for v in ctx.violations):
                if not f.cancel():
                    f.result()
                continue
            res = f.result()
            src = recipe.account(ctx, label, 'PoolParts', tla_consts(c), res, emit=True,
                                 simulate=(kind == 'walks'))
            sample = None
            if kind == 'small':
                if not thorough and src.n_edges > 25000:
                    sample = 25000
                ctx.sample({'unit': label, 'constants': c, 'states': len(src.state),
                            'edges': src.n_edges}, limit=12)
            elif src:
                ctx.sample({'unit': label, 'walk': [e['act'] for e in src[0]][:25]}, limit=12)
            mc = dict(c, MaxPid=c['MaxPid'] + 8)
            recipe.conform(ctx, label, src, Maker(c), mon_module='PoolPartsMonitor',
                           mon_invariants=inv, mon_properties=props, mon_constants=tla_consts(mc),
                           sample=sample, monitor_all=(kind == 'walks'),
                           known=KNOWN.get(pid, ()) if kind == 'walks' else ())
            del src
