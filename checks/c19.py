"""C19 -- process exit status and liveness are reported faithfully."""
import os
import signal
from concurrent.futures import ThreadPoolExecutor

from harness import procs
from lib import monitor, recipe

PROPS = ['ObservationsAnswer', 'ExitcodeFaithful', 'AliveFaithful', 'JoinWithinTimeout', 'JoinReturnsWhenEnded',
         'NotActiveAfterJoin', 'StartOnce', 'StartOnlyByCreator']
SIGS_Q = [signal.SIGTERM, signal.SIGKILL, signal.SIGSEGV, signal.SIGINT, signal.SIGUSR1]
SIGS_T = SIGS_Q + [signal.SIGHUP, signal.SIGQUIT, signal.SIGABRT, signal.SIGBUS, signal.SIGFPE,
                   signal.SIGPIPE, signal.SIGALRM, signal.SIGUSR2, signal.SIGXCPU]


def hows(thorough):
    h = [('return',), ('raise',)]
    h += [('exit', n) for n in ([0, 1, 3, 255] if not thorough else [0, 1, 2, 3, 7, 70, 127, 128, 155, 255])]
    h += [('signal', int(s)) for s in (SIGS_T if thorough else SIGS_Q)]
    return h


def tla_consts(hs):
    def t(h):
        return '<<' + ', '.join('"%s"' % x if isinstance(x, str) else str(x) for x in h) + '>>'
    return dict(Methods='{"fork", "spawn", "forkserver"}', Hows='{' + ', '.join(t(h) for h in hs) + '}',
                MaxCalls='5')


def main(ctx):
    thorough = ctx.tier == 'thorough'
    hs = hows(thorough)
    c = tla_consts(hs)
    # the design: all orders of parent calls relative to the child's end
    res = recipe.tlc_only('proc-design', 'Proc', constants=c,
                          invariants=['AliveUntilEnded', 'CodeRange'],
                          properties=['AfterJoinNotListed'], workers=8, timeout=900, heap='4g')
    recipe.account(ctx, 'proc-design', 'Proc', c, res)
    jobs = []
    for mi, method in enumerate(['fork', 'spawn', 'forkserver']):
        for hi, how in enumerate(hs):
            scheds = range(4) if thorough else [(mi + hi) % 2, 2 + (mi + hi) % 2]
            for s in scheds:
                jobs.append((method, list(how), s))
    # two observers (a thread blocked in join(), another polling) at the moment the child ends
    for method in ['fork', 'spawn', 'forkserver']:
        for how in (hs if thorough else [('exit', 3), ('signal', int(signal.SIGTERM)), ('return',)]):
            jobs.append((method, list(how), 4))
    # real children are started from a fresh interpreter in its own session
    import json
    from lib import sandbox
    scale = sandbox.time_scale()
    rc, obs, log = sandbox.run_driver_patient('process', 'harness.procs_main', [ctx.tier, json.dumps(jobs)],
                                      timeout=(1500 if thorough else 400) * scale,
                                      env={'VERIF_TIME_SCALE': str(scale)})
    if rc != 0 or obs is None:
        sandbox.driver_failed('process', rc, log)
    bad = [o for o in obs if any(x['act']['e'] in ('harness_timeout', 'harness_error') for x in o)]
    if bad:
        raise RuntimeError('harness: child did not end: %r' % (bad[0][0]['state'],))
    ctx.traces += len(obs)
    ctx.replay_steps += sum(len(o) for o in obs)
    ctx.sample({'scenario': obs[0][0]['state'], 'events': [x['act'] for x in obs[0]]})
    ctx.sample({'scenario': obs[-2][0]['state'], 'events': [x['act'] for x in obs[-2]]})
    ctx.note('real_child_processes', len(obs))
    _, verdicts = monitor.check('ProcMonitor', obs, properties=PROPS, constants=c)
    seen = set()
    for v in verdicts:
        o = obs[v['trace']]
        key = (v['name'], o[0]['state']['method'], tuple(o[0]['state']['how']))
        if key in seen:
            continue
        seen.add(key)
        ctx.violation('real child (%s, %s): observation falsifies %s' % (key[1], key[2], v['name']),
                      'observed:%s:%s:%s' % (v['name'], key[1], key[2][0]),
                      replay={'obs': o, 'at': v['at']})
    ctx.assumptions += ['the driver knows the child is blocked (it holds the release pipe) and '
                        'knows it is dead via waitid(WNOWAIT) (fork/spawn) or the sentinel pipe '
                        '(forkserver); join timing slack %.1fs' % procs.SLACK]
    ctx.exhaustive = False
