"""Binding B for the pool properties: a matrix of real pools with real worker processes,
each scenario in its own interpreter; observations judged by TLC (PoolObs.tla)."""
import json

from lib import monitor, sandbox

FORMULAS = {
    'C01': ['HostSurvives', 'SendFailResolves', 'LossReported', 'LossSparesOthers'],
    'C04': ['HostSurvives', 'LossReported', 'LossSparesOthers', 'IdleLossHarmless', 'RecycleHarmless'],
    'C05': ['HostSurvives', 'HardLimit', 'MapNeverTimedOut'],
    'C06': ['HostSurvives', 'SoftOnceInTask'],
    'C08': ['HostSurvives', 'SignalledRunsCallback', 'TerminateStopsRefill'],
    'C09': ['HostSurvives', 'RecycleHarmless', 'LossSparesOthers', 'IdleLossHarmless', 'DiscardNoHoldUp'],
    'C10': ['HostSurvives', 'SendFailSlot', 'HardSlotBack', 'DiscardSlotBack'],
    'C11': ['HostSurvives', 'BudgetAckResets', 'BudgetStops'],
}
KNOWN = {'C04': [('TolImapLoss', ['LossReported'])], 'C01': [('TolImapLoss', ['LossReported'])],
         'C10': [('TolSendFailSlot', ['SendFailSlot']), ('TolLateReadySlot', ['DiscardSlotBack'])], 'C09': [('TolDiscardCredit', ['DiscardNoHoldUp'])]}
CONSTS = dict(Slack10='50', TolImapLoss='TRUE', TolSendFailSlot='TRUE', TolDiscardCredit='TRUE', TolLateReadySlot='TRUE')


def scenarios(pid, thorough):
    S = []
    if pid in ('C04', 'C01'):
        kinds = ['apply', 'imap', 'imapu', 'map'] if pid == 'C04' else ['apply', 'imap']
        hows = [['signal', 9], ['exit', 3], ['signal', 11], ['exit', 0]]
        if thorough:
            # only signals a worker does not handle itself (its termination handler turns TERM, ABRT,
            # HUP, QUIT, USR1 ... into an exception inside the task: that is not a death)
            hows += [['signal', 7], ['signal', 8], ['exit', 155], ['exit', 255], ['signal', 4]]
        for ki, k in enumerate(kinds):
            for hi, h in enumerate(hows):
                if not thorough and (ki + hi) % 2 and k != 'apply':
                    continue
                if k == 'map' and not thorough and hi > 0:
                    continue
                S.append(dict(kind='loss', procs=2 if (ki + hi) % 3 else 1, job=k, how=h))
        if pid == 'C04':
            for k in (kinds if thorough else ['apply', 'imap']):
                S.append(dict(kind='idleloss', job=k))
            S.append(dict(kind='loss', procs=1, job='apply', how=['signal', 9], closing=True))
            S.append(dict(kind='loss', procs=2, job='apply', how=['exit', 3], closing=True))
            # converse clause: workers that leave after finishing their work cause no failure
            S.append(dict(kind='recycle', quota=1, job='map', slow=True, items=12, chunk=3))
            S.append(dict(kind='recycle', quota=2, job='imapu', slow=True, items=8))
    if pid == 'C01':
        S.append(dict(kind='sendfail'))
        # accepted, then its worker dies while the pool is being closed and joined: still resolves
        S.append(dict(kind='loss', procs=1, job='apply', how=['signal', 9], closing=True))
    if pid == 'C10':
        S.append(dict(kind='sendfail'))
        S += [dict(kind='discard', quota=0, procs=2, putlocks=True),
              dict(kind='hard', procs=2, where='pool', putlocks=True),
              dict(kind='hard', procs=2, where='job', putlocks=True, stubborn=True, leader=True)]
    if pid == 'C08':
        S += [dict(kind='signal_one', target='busy'), dict(kind='signal_one', target='idle'),
              dict(kind='term_repop')]
    if pid == 'C11':
        for maxr in ((1, 2, 3) if thorough else (2,)):
            S.append(dict(kind='budget', variant='ack', maxr=maxr))
            S.append(dict(kind='budget', variant='exceed', maxr=maxr))
    if pid == 'C05':
        for procs in (1, 2):
            for where in ('job', 'pool', 'both'):
                S.append(dict(kind='hard', procs=procs, where=where))
        # a task that ignores the termination signal (SIGKILL must follow), also when the worker
        # leads its own process group
        S += [dict(kind='hard', procs=1, where='job', stubborn=True),
              dict(kind='hard', procs=2, where='pool', stubborn=True, leader=True),
              dict(kind='hard', procs=1, where='job', leader=True)]
        S += [dict(kind='hard_map', job='map'), dict(kind='hard_map', job='imap')]
    if pid == 'C06':
        for procs in (1, 2):
            for where in ('job', 'pool', 'both'):
                S.append(dict(kind='soft', procs=procs, where=where))
    if pid == 'C09':
        for job in ('map', 'apply'):
            for q in ((1, 2, 3) if thorough else (1, 2)):
                S.append(dict(kind='recycle', quota=q, job=job))
        for job in (('map', 'imap', 'imapu', 'apply') if thorough else ('map', 'imapu')):
            S.append(dict(kind='recycle', quota=2, job=job, slow=True, items=8))
        # parts of several items (chunksize > 1): a part's worker is forgotten item by item
        S.append(dict(kind='recycle', quota=1, job='map', slow=True, items=12, chunk=3))
        if thorough:
            S.append(dict(kind='recycle', quota=2, job='map', slow=True, items=16, chunk=2))
        for job in (('map', 'imap', 'imapu') if thorough else ('imap',)):
            S.append(dict(kind='idleloss', job=job))
        S.append(dict(kind='loss', procs=2, job='apply', how=['signal', 9]))
        S.append(dict(kind='discard', quota=1, putlocks=False))
    return S


def run(ctx, pid):
    thorough = ctx.tier == 'thorough'
    scen = scenarios(pid, thorough)
    scale = sandbox.time_scale()
    rc, data, log = sandbox.run_driver('harness.poolreal_main', [ctx.tier, json.dumps(scen)],
                                       timeout=(1500 if thorough else 500) * scale,
                                       env={'VERIF_TIME_SCALE': str(scale)})
    if rc != 0 or data is None:
        sandbox.driver_failed('real-pool', rc, log)
    forms = FORMULAS[pid]
    consts = dict(CONSTS, Slack10=str(int(50 * scale)))
    ctx.note('real_time_slack_s', 5 * scale)
    ctx.traces += len(data)
    ctx.replay_steps += len(data)
    ctx.note('real_pool_scenarios', len(data))
    ctx.sample({'real_pool_scenario': data[0]['scenario'],
                'observed': {k: v for k, v in data[0].items() if k != 'scenario'}}, limit=10)
    _, verdicts = monitor.check('PoolObs', data, invariants=forms, constants=consts)
    # reproducibility rule for sampled real executions (see checks/shutdown.py)
    pending = {}
    for v in verdicts:
        d = data[v['trace']]
        pending.setdefault(json.dumps(d['scenario'], sort_keys=True), (d, set()))[1].add(v['name'])
    unconfirmed = []
    for key, (d, names) in pending.items():
        still = set(names)
        for attempt in range(2):
            rc2, again, _ = sandbox.run_driver('harness.poolreal_main', [ctx.tier, json.dumps([d['scenario']])],
                                               timeout=400 * scale, env={'VERIF_TIME_SCALE': str(scale)})
            if rc2 != 0 or not again:
                break
            # (a broken scenario may fail differently each time -- hang once, take the host down the
            #  next: any falsified formula of the property confirms it)
            _, v2 = monitor.check('PoolObs', again, invariants=forms, constants=consts)
            if not v2:
                still = set()
                break
        for name in sorted(names):
            if name in still:
                ctx.violation('real pool, %r: %s falsified, 3 runs out of 3 (%r)' % (
                    d['scenario'], name, {k: d[k] for k in d if k != 'scenario'}),
                    'observed:poolreal:%s:%s' % (name, d['scenario']['kind']), replay=d)
            else:
                unconfirmed.append({'scenario': d['scenario'], 'formula': name,
                                    'observed': {k: d[k] for k in d if k != 'scenario'}})
    if unconfirmed:
        ctx.note('unreproducible_observations', unconfirmed)
        ctx.log('%d observation(s) falsified a formula once but not again: recorded, not reported' % len(unconfirmed))
    for tol, fs in KNOWN.get(pid, ()):
        c2 = dict(consts, **{tol: 'FALSE'})
        _, verdicts = monitor.check('PoolObs', data, invariants=[f for f in fs if f in forms], constants=c2)
        for v in verdicts[:1]:
            d = data[v['trace']]
            ctx.violation('with tolerance %s off, real pool %r falsifies %s' % (tol, d['scenario'], v['name']),
                          'strict:%s:%s' % (tol, v['name']), replay=d)
