"""C15 -- shared ctypes values are isolated, initialised, visible and atomic."""
from concurrent.futures import ThreadPoolExecutor

from harness.shared import SharedAdapter
from lib import monitor, recipe, sandbox

INV = ['ValueExact', 'Isolation', 'ObjectsAreLive', 'Partition', 'Coalesced']
PROPS = ['WriteTouchesOne']


def consts(sizes, vals, objs, live, arenas):
    return dict(Align=2, Page=8, InitSize=8, Sizes=sizes, MaxLive=live, MaxArenas=arenas, MaxGC=0,
                ObjSizes=sizes, Vals=vals, MaxObjs=objs)


def tla(c):
    o = {k: str(v) for k, v in c.items()}
    for k in ('Sizes', 'ObjSizes', 'Vals'):
        o[k] = '{' + ', '.join(str(s) for s in c[k]) + '}'
    return o


class Maker:
    def __init__(self, c):
        self.c = c

    def __call__(self):
        return SharedAdapter(self.c)


def main(ctx):
    thorough = ctx.tier == 'thorough'
    small = consts([2, 8], [1, 2], 2, 2, 2)
    wide = consts([2, 8], [1] if not thorough else [1, 2], 3, 3, 2)
    walks = consts([1, 2, 3, 4, 8, 9], [1, 2, 3], 4, 4, 3)
    kw = dict(init='SInit', next_='SNext', view='SView')

    def run(label, c, **k):
        cons = list(k.pop('constraints', []))
        acs = []
        workers = k.pop('workers', None)
        emit = k.pop('emit', False)
        if emit:
            cons.append('SEmitInit')
            acs.append('SEmitEdge')
            workers = 1
        from lib import tlc
        cfg = tlc.make_cfg(constants=tla(c), invariants=INV, properties=PROPS, view='SView',
                           init='SInit', next_='SNext', constraints=cons, action_constraints=acs)
        return tlc.run('Shared', cfg, workers=workers, timeout=1800, heap='4g',
                       simulate=k.get('simulate'), depth=k.get('depth'),
                       seed=ctx.seed if k.get('simulate') else None,
                       budget_ok=bool(k.get('simulate')) or not emit)

    with ThreadPoolExecutor(3) as ex:
        fs = ex.submit(run, 'shared-small', small, emit=True)
        fw = ex.submit(run, 'shared-wide', wide, workers=8)
        fk = ex.submit(run, 'shared-walks', walks, emit=True,
                       simulate=3000 if thorough else 400, depth=30)
        g = recipe.account(ctx, 'shared-small', 'Shared', tla(small), fs.result(), emit=True)
        ctx.sample({'unit': 'shared-small', 'constants': small, 'states': len(g.state),
                    'edges': g.n_edges})
        recipe.conform(ctx, 'shared-small', g, Maker(small), mon_module='SharedMonitor',
                       mon_invariants=INV, mon_properties=PROPS, mon_constants=tla(small))
        behs = recipe.account(ctx, 'shared-walks', 'Shared', tla(walks), fk.result(), emit=True,
                              simulate=True)
        if behs:
            ctx.sample({'walk': [e['act'] for e in behs[0]][:12]})
        recipe.conform(ctx, 'shared-walks', behs, Maker(walks), mon_module='SharedMonitor',
                       mon_invariants=INV, mon_properties=PROPS, mon_constants=tla(walks),
                       monitor_all=True)
        recipe.account(ctx, 'shared-wide', 'Shared', tla(wide), fw.result())

    # real processes: locked increments, visibility; type sweep (data clause)
    rc, data, log = sandbox.run_driver_patient('shared-memory', 'harness.shared_main', [ctx.tier], timeout=600)
    if rc != 0 or data is None:
        sandbox.driver_failed('shared-memory', rc, log)
    obs = [c['obs'] for c in data['counters']]
    _, verdicts = monitor.check('CounterMonitor', obs, invariants=['FinalIsCount'],
                                properties=['NoLostUpdate', 'ExclusiveHold'], constants={'MaxVal': '100000'})
    ctx.traces += len(obs)
    ctx.replay_steps += sum(len(o) for o in obs)
    for v in verdicts:
        c = data['counters'][v['trace']]
        ctx.violation('locked increments of %d %s processes: %s falsified' % (c['nproc'], c['method'], v['name']),
                      'observed:counter:%s:%s' % (v['name'], c['method']),
                      replay={'obs': c['obs'][:50], 'at': v['at']})
    for c in data['counters']:
        if c['final'] != c['expected']:
            ctx.violation('final value %d after %d locked increments (%s)' % (c['final'], c['expected'], c['method']),
                          'observed:counter:final:%s' % c['method'], replay=c['obs'][-5:])
    for v in data['visibility']:
        if v['child_saw'] != 17 or v['parent_saw'] != 23:
            ctx.violation('write not visible across processes (%s): %r' % (v['method'], v),
                          'observed:visibility:%s' % v['method'], replay=v)
    for h in data.get('handed_on', []):
        if h['end_exit'] != 0 or [h['int'], h['double']] != h['expected']:
            ctx.violation('shared values handed on by a process that had only received them are not the shared '
                          'ones any more (%s): %r' % (h['method'], h), 'observed:handed_on:%s' % h['method'], replay=h)
    ctx.note('handed_on', data.get('handed_on'))
    fi = data['fork_isolation']
    if not (fi['parent_zero_at_birth'] and fi['parent_intact'] and fi['child_intact']):
        ctx.violation('objects allocated on either side of a fork share storage: %r' % fi,
                      'observed:fork_isolation', replay=fi)
    ctx.note('fork_isolation', fi)
    for b in data['types']['bad']:
        ctx.violation('type sweep: ' + b, 'datasweep:' + b.split('(')[0], replay=b)
    ctx.note('type_sweep_cases', data['types']['cases'])
    ctx.note('counter_runs', [{k: c[k] for k in ('method', 'nproc', 'n', 'final', 'expected')} for c in data['counters']])
    ctx.sample({'locked_increments': data['counters'][0]['obs'][1:4]})
    ctx.assumptions += ['cross-process atomicity is observed on recorded executions (lock-ordered '
                        'log), not enumerated; ctypes type coverage is a harness sweep']
