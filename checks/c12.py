"""C12 -- exceptions and tracebacks cross the process boundary intact.

(a) protocol clause (unserialisable result -> encoding error on that job, worker alive):
    Worker.tla, checks/workercommon.py.
(b) depth bounding and round-trip stability: EInfo.tla; one implementation test per
    transition of its state graph with real exceptions, real pickling, real formatting.
"""
from checks import workercommon
from harness.einfo import EInfoAdapter
from lib import recipe

INV = ['DepthBounded', 'RoundTripStable', 'NothingLostWhenShallow']


class Maker:
    def __init__(self, c):
        self.c = c

    def __call__(self):
        return EInfoAdapter(self.c)


def consts(limit, depths, pickles):
    return dict(Limit=limit, Depths=depths, MaxPickles=pickles)


def tla(c):
    return dict(Limit=str(c['Limit']), MaxPickles=str(c['MaxPickles']),
                Depths='{' + ', '.join(map(str, c['Depths'])) + '}',
                Kinds='{"exc0", "exc1", "base", "nested", "encerr"}')


def main(ctx):
    thorough = ctx.tier == 'thorough'
    units = [consts(3, [1, 2, 3, 4, 5, 6, 8], 3),
             consts(125, [1, 2, 126, 127, 128, 200] + ([1100, 3000] if thorough else [1100]), 3)]
    ctx.assumptions += ['pickle and the traceback module of CPython are trusted; text/format '
                        'clauses are concrete assertions made by the harness at each transition '
                        '(surfaced as the `same` flag), TLA+ contributes the case partition']
    for i, c in enumerate(units):
        label = 'einfo-%d' % c['Limit']
        res = recipe.tlc_only(label, 'EInfo', constants=tla(c), invariants=INV, emit=True,
                              timeout=600, heap='2g')
        g = recipe.account(ctx, label, 'EInfo', tla(c), res, emit=True)
        ctx.sample({'unit': label, 'constants': c, 'states': len(g.state), 'edges': g.n_edges})
        recipe.conform(ctx, label, g, Maker(c), mon_module='EInfoMonitor', mon_invariants=INV,
                       mon_constants=tla(c))
    workercommon.run(ctx, 'C12')
    ctx.exhaustive = True
