"""C09 -- pool keeps its size; workers are recycled on schedule without harm."""
from checks import poolcommon, workercommon


def main(ctx):
    poolcommon.run(ctx, 'C09')
    workercommon.run(ctx, 'C09')
