"""C09 -- pool keeps its size; workers are recycled on schedule without harm."""
from checks import poolcommon, poolreal, workercommon


def main(ctx):
    poolcommon.run(ctx, 'C09')
    workercommon.run(ctx, 'C09')
    poolreal.run(ctx, 'C09')
