"""C09 -- pool keeps its size; workers are recycled on schedule without harm."""
from checks import poolparts, poolcommon, poolreal, workercommon


def main(ctx):
    poolcommon.run(ctx, 'C09')
    poolparts.run(ctx, 'C09')         # multi-part jobs under supervision
    workercommon.run(ctx, 'C09')
    poolreal.run(ctx, 'C09')
