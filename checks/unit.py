"""Development aid: run one shared unit of a check by name.
   VERIF_UNIT=racecommon:C06 ./run.py UNIT   (evidence goes to VERIF_EVIDENCE_DIR or evidence/UNIT.json)"""
import importlib
import os


def main(ctx):
    name, _, arg = os.environ['VERIF_UNIT'].partition(':')
    mod = importlib.import_module('checks.%s' % name)
    if arg:
        mod.run(ctx, arg)
    else:
        mod.run(ctx)
