"""C17 -- locks, semaphores, conditions and events: no lost wake-ups."""
from concurrent.futures import ThreadPoolExecutor

from harness.cond import CondAdapter
from lib import recipe

INV = ['Mutex', 'SemNonNeg', 'NoAssert', 'NotifyAllWakes', 'NotifyAtMostOne', 'NotifyWakesOnly',
       'Consistent', 'QuietBalanced', 'AnnounceBeforeUnlock']
PROPS = ['WaitResult', 'EventReportsFlag', 'FlagOnlyUnderLock']


def prog(*ps):
    return '(' + ' @@ '.join('(%d :> <<%s>>)' % (i + 1, ', '.join('"%s"' % o for o in p))
                             for i, p in enumerate(ps)) + ')'


def consts(nthreads, progs):
    return dict(Threads='1..%d' % nthreads, Programs='{' + ', '.join(progs) + '}')


QUICK_SMALL = [
    consts(3, [prog(['wait'], ['twait'], ['notify', 'notify_all']),
               prog(['wait'], ['wait'], ['notify_all', 'notify']),
               prog(['twait', 'wait'], ['notify'], ['notify'])]),
    consts(3, [prog(['ewait'], ['etwait', 'is_set'], ['set', 'clear']),
               prog(['is_set', 'ewait'], ['set'], ['clear', 'set'])]),
]
QUICK_WIDE = [
    consts(4, [prog(['wait'], ['twait', 'wait'], ['twait'], ['notify', 'notify_all', 'notify']),
               prog(['wait'], ['wait'], ['twait'], ['notify_all', 'notify_all'])]),
    consts(4, [prog(['ewait', 'is_set'], ['etwait', 'etwait'], ['set', 'clear', 'set'],
                    ['is_set', 'ewait'])]),
]
THOROUGH_SMALL = QUICK_SMALL + [
    consts(4, [prog(['wait'], ['twait'], ['twait'], ['notify', 'notify_all'])]),
    consts(3, [prog(['wait', 'twait'], ['twait', 'wait'], ['notify', 'notify_all', 'notify'])]),
]
THOROUGH_WIDE = QUICK_WIDE + [
    consts(5, [prog(['wait'], ['twait'], ['twait'], ['notify', 'notify'], ['notify_all'])]),
    consts(4, [prog(['wait', 'twait'], ['twait', 'wait'], ['twait', 'twait'],
                    ['notify', 'notify_all', 'notify', 'notify_all'])]),
    consts(5, [prog(['ewait'], ['etwait'], ['etwait', 'ewait'], ['set', 'clear', 'set'],
                    ['clear', 'is_set', 'set'])]),
]
WALKS = consts(5, [prog(['wait', 'twait', 'wait'], ['twait', 'wait'], ['twait', 'twait', 'twait'],
                        ['notify', 'notify_all', 'notify', 'notify_all'],
                        ['notify', 'notify', 'notify_all']),
                   prog(['ewait', 'is_set', 'etwait'], ['etwait', 'ewait'], ['set', 'clear', 'set'],
                        ['clear', 'set', 'is_set'], ['etwait', 'etwait'])])


def main(ctx):
    thorough = ctx.tier == 'thorough'
    smalls = THOROUGH_SMALL if thorough else QUICK_SMALL
    wides = THOROUGH_WIDE if thorough else QUICK_WIDE
    ctx.assumptions += ['the underlying SemLock of CPython is a correct counting semaphore with '
                        'timed acquire (Lock / Semaphore / BoundedSemaphore clauses reduce to it); '
                        'a timed wait may time out at any moment',
                        'real Condition/Event code runs on cooperative semaphores: one thread at a '
                        'time, scheduled at every semaphore operation']

    def small(i, c):
        return recipe.tlc_only('cond-small%d' % i, 'Cond', constants=c, invariants=INV,
                               properties=PROPS, emit=True, timeout=2400, heap='4g')

    def wide(i, c):
        return recipe.tlc_only('cond-wide%d' % i, 'Cond', constants=c, invariants=INV,
                               properties=PROPS, workers=6, timeout=1800, heap='6g', budget_ok=True)

    def walks():
        return recipe.tlc_only('cond-walks', 'Cond', constants=WALKS, invariants=INV,
                               properties=PROPS, emit=True, simulate=5000 if thorough else 600,
                               depth=120, seed=ctx.seed, timeout=1500, heap='3g', budget_ok=True)

    with ThreadPoolExecutor(5) as ex:
        fs = [ex.submit(small, i, c) for i, c in enumerate(smalls)]
        fw = [ex.submit(wide, i, c) for i, c in enumerate(wides)]
        fk = ex.submit(walks)
        for i, (c, f) in enumerate(zip(smalls, fs)):
            g = recipe.account(ctx, 'cond-small%d' % i, 'Cond', c, f.result(), emit=True)
            ctx.sample({'unit': 'cond-small%d' % i, 'programs': c['Programs'],
                        'states': len(g.state), 'edges': g.n_edges})
            recipe.conform(ctx, 'cond-small%d' % i, g, CondAdapter, mon_module='CondMonitor',
                           mon_invariants=INV, mon_properties=PROPS, mon_constants=c,
                           sample=None if thorough else 60000)
        behs = recipe.account(ctx, 'cond-walks', 'Cond', WALKS, fk.result(), emit=True,
                              simulate=True)
        if behs:
            ctx.sample({'walk': [[e['act']['t'], e['act']['sem'], e['act']['op'], e['act']['ok']]
                                 for e in behs[0]][:30]})
        recipe.conform(ctx, 'cond-walks', behs, CondAdapter, mon_module='CondMonitor',
                       mon_invariants=INV, mon_properties=PROPS, mon_constants=WALKS,
                       monitor_all=True)
        for i, (c, f) in enumerate(zip(wides, fw)):
            recipe.account(ctx, 'cond-wide%d' % i, 'Cond', c, f.result())
    ctx.exhaustive = True
    real_kernel(ctx)


OBS_INV = ['NobodyStuck', 'CondConserves', 'CondLockExcludes', 'UntimedNeverTimesOut', 'SemBound', 'EventExact']


def real_kernel(ctx):
    """binding B: real processes on the real kernel semaphores, judged by SyncObs.tla (a falsified
    formula is reported only if it is falsified again when the scenario set is run once more)"""
    from lib import monitor, sandbox
    scale = sandbox.time_scale()

    def once():
        rc, data, log = sandbox.run_driver_patient('synchronisation', 'harness.sync_main', [ctx.tier], timeout=500 * scale,
                                           env={'VERIF_TIME_SCALE': str(scale)})
        if rc != 0 or data is None:
            sandbox.driver_failed('synchronisation', rc, log)
        _, verdicts = monitor.check('SyncObs', data, invariants=OBS_INV)
        return data, set((v['name'], data[v['trace']]['kind'], data[v['trace']]['method']) for v in verdicts)
    data, bad = once()
    ctx.traces += len(data)
    ctx.replay_steps += len(data)
    ctx.note('real_sync_scenarios', data)
    if bad:
        data2, bad2 = once()
        for key in sorted(bad & bad2):
            d = next(x for x in data2 if (x['kind'], x['method']) == key[1:])
            ctx.violation('real processes (%s, %s): %s falsified twice: %r' % (key[1], key[2], key[0], d),
                          'observed:sync:%s:%s' % (key[0], key[1]), replay=d)
        if bad - bad2:
            ctx.note('unreproducible_observations', sorted(bad - bad2))
