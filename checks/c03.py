"""C03 -- worker job protocol: accept before run, one result per job, NACK honoured."""
from checks import workercommon


def main(ctx):
    workercommon.run(ctx, 'C03')
    ctx.exhaustive = True
