"""C02 -- results equal the sequential computation: value, order, exception."""
from concurrent.futures import ThreadPoolExecutor

from harness.mapasm import MapAdapter
from lib import recipe

INV = ['MapCorrect', 'MapReadyWhen', 'MapCallbacksOnce', 'EmptyIsEmpty', 'Tiling', 'ImapPrefix',
       'ImapItemExact', 'ImapuNoDupNoAlien', 'StopsComplete', 'NoEarlyStop', 'ImapComplete',
       'MapComplete']
PROPS = ['MapStable', 'ContinuesAfterError']
KNOWN = [('TolChunkedImapStops', ['StopsComplete', 'ContinuesAfterError'])]


def consts(maxn, sizes, fails, kinds, dup=1):
    return dict(MaxN=str(maxn), Sizes='{' + ', '.join(map(str, sizes)) + '}',
                MaxFails=str(fails), Kinds='{' + ', '.join('"%s"' % k for k in kinds) + '}',
                MaxDup=str(dup), TolChunkedImapStops='TRUE')


def main(ctx, only=None, known=True):
    if only is None:
        # the exception a task raises -- also from a very deep stack -- comes back as that task's result
        from checks import itercommon, workercommon
        workercommon.run(ctx, 'C02')
        # the consumer of an imap iterator against the pool's deliveries (condition-variable granularity)
        itercommon.run(ctx, 'C02')
    """only: restrict the formulas (used by C01, whose statement covers the parts of map / imap jobs)"""
    global INV, PROPS
    inv0, props0 = INV, PROPS
    if only is not None:
        INV = [f for f in INV if f in only]
        PROPS = [f for f in PROPS if f in only]
    try:
        _main(ctx, known)
    finally:
        INV, PROPS = inv0, props0


def _main(ctx, known):
    thorough = ctx.tier == 'thorough'
    if thorough:
        units = [('map', consts(5, [1, 2], 2, ['map'])),
                 ('imap', consts(4, [1], 2, ['imap'])),
                 ('imapu', consts(4, [1], 1, ['imapu']))]
        walks = consts(7, [1, 2, 3], 3, ['map', 'imap', 'imapu'], dup=2)
    else:
        units = [('map', consts(4, [1, 2], 1, ['map'])),
                 ('imap', consts(3, [1], 1, ['imap'])),
                 ('imapu', consts(3, [1], 1, ['imapu']))]
        walks = consts(6, [1, 2, 3], 2, ['map', 'imap', 'imapu'])
    ctx.assumptions += ['payloads are tokens in the specification; the harness uses real values, '
                        'real pickling of every task and result message, and compares the final '
                        'list / exception type / args / remote traceback on each replayed step']

    def launch(u):
        label, c = u
        return recipe.tlc_only('mapasm-' + label, 'MapAsm', constants=c, invariants=INV,
                               properties=PROPS, emit=True, timeout=2400, heap='4g')

    def launch_walks():
        return recipe.tlc_only('mapasm-walks', 'MapAsm', constants=walks, invariants=INV,
                               properties=PROPS, emit=True, simulate=6000 if thorough else 800,
                               depth=40, seed=ctx.seed, timeout=1200, heap='3g', budget_ok=True)

    with ThreadPoolExecutor(4) as ex:
        futs = [ex.submit(launch, u) for u in units]
        fw = ex.submit(launch_walks)
        for (label, c), fut in zip(units, futs):
            g = recipe.account(ctx, 'mapasm-' + label, 'MapAsm', c, fut.result(), emit=True)
            ctx.sample({'unit': label, 'constants': c, 'states': len(g.state), 'edges': g.n_edges,
                        'initial_states': len(g.inits)}, limit=6)
            recipe.conform(ctx, 'mapasm-' + label, g, MapAdapter, mon_module='MapAsmMonitor',
                           mon_invariants=INV, mon_properties=PROPS, mon_constants=c,
                           sample=None if thorough else 80000)
        behs = recipe.account(ctx, 'mapasm-walks', 'MapAsm', walks, fw.result(), emit=True,
                              simulate=True)
        if behs:
            ctx.sample({'walk': [e['act'] for e in behs[0]][:20],
                        'start': {k: behs[0][0]['from'][k] for k in ('n', 'c', 'kind', 'fails')}})
        recipe.conform(ctx, 'mapasm-walks', behs, MapAdapter, mon_module='MapAsmMonitor',
                       mon_invariants=INV, mon_properties=PROPS, mon_constants=walks,
                       monitor_all=True, known=KNOWN if known else ())
    ctx.exhaustive = True
