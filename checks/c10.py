"""C10 -- slot semaphore is bounded, conserved and never leaked.

Part 1 (this file, semaphore level): Sem.tla exhaustively + every edge replayed into
the real LaxBoundedSemaphore; fine-grained clear() interleavings.
Part 2 (pool level: conservation / in-flight bound): checks/poolcommon.py.
"""
from harness.sem import SemAdapter
from lib import recipe

INV = ['Bounded', 'PendOnlyWhenEmpty']
PROPS = ['AcquireTakesOne', 'ReleaseGivesOne', 'ClearRestores', 'ResizeByOne']


def consts(init, maxb, fine, locked=False, pend=1, finerel=False):
    return dict(InitBound=str(init), MaxBound=str(maxb), MaxPend=str(pend),
                FineClear='TRUE' if fine else 'FALSE',
                ClearLocked='TRUE' if locked else 'FALSE',
                FineRelease='TRUE' if finerel else 'FALSE')


def sem_level(ctx):
    thorough = ctx.tier == 'thorough'
    bounds = [(1, 2), (2, 3), (3, 4)] if not thorough else [(1, 3), (2, 4), (3, 5), (4, 6)]
    for init, maxb in bounds:
        c = consts(init, maxb, fine=False, pend=2 if thorough else 1)
        _, g = recipe.design_check(ctx, 'sem-coarse-%d-%d' % (init, maxb), 'Sem', c,
                                   invariants=INV, properties=PROPS, emit=True)
        ctx.sample({'spec': 'Sem', 'constants': c, 'first_edges':
                    [{'from': g.state[k], 'act': a, 'to': g.state[t]}
                     for k in g.inits for a, t in g.out[k]][:3]}, limit=2)
        recipe.conform(ctx, 'sem-coarse-%d-%d' % (init, maxb), g, SemAdapter,
                       mon_module='SemMonitor', mon_invariants=INV, mon_properties=PROPS,
                       mon_constants=c)
    # two threads release slots (result handler, supervisor): the second one's call is parked at
    # the lock boundary while the first one's runs
    for init, maxb in ([(2, 3)] if not thorough else [(1, 2), (2, 3), (3, 4)]):
        c = consts(init, maxb, fine=False, finerel=True)
        _, g = recipe.design_check(ctx, 'sem-finerelease-%d-%d' % (init, maxb), 'Sem', c,
                                   invariants=INV, properties=PROPS, emit=True)
        recipe.conform(ctx, 'sem-finerelease-%d-%d' % (init, maxb), g, SemAdapter,
                       mon_module='SemMonitor', mon_invariants=INV, mon_properties=PROPS,
                       mon_constants=c)
        # the parked call may already have made its test: states reached by other than the shortest path
        _, behs = recipe.design_check(ctx, 'sem-finerelease-walks-%d-%d' % (init, maxb), 'Sem', c,
                                      invariants=INV, properties=PROPS, emit=True,
                                      simulate=400 if not thorough else 3000, depth=14)
        recipe.conform(ctx, 'sem-finerelease-walks-%d-%d' % (init, maxb), behs, SemAdapter,
                       mon_module='SemMonitor', mon_invariants=INV, mon_properties=PROPS,
                       mon_constants=c, monitor_all=True)
    # clear() racing with the threads that release slots: two-step clear
    for init, maxb in ([(2, 3)] if not thorough else [(1, 2), (2, 3), (3, 4)]):
        c = consts(init, maxb, fine=True, locked=CLEAR_IS_LOCKED)
        _, g = recipe.design_check(ctx, 'sem-fineclear-%d-%d' % (init, maxb), 'Sem', c,
                                   invariants=['Bounded'], emit=True)
        recipe.conform(ctx, 'sem-fineclear-%d-%d' % (init, maxb), g, SemAdapter,
                       mon_module='SemMonitor', mon_invariants=['Bounded'],
                       mon_constants=c)
        # random walks reach each state by other than the shortest path
        _, behs = recipe.design_check(ctx, 'sem-fineclear-walks-%d-%d' % (init, maxb), 'Sem', c,
                                      invariants=['Bounded'], emit=True,
                                      simulate=300 if not thorough else 3000, depth=12)
        recipe.conform(ctx, 'sem-fineclear-walks-%d-%d' % (init, maxb), behs, SemAdapter,
                       mon_module='SemMonitor', mon_invariants=['Bounded'],
                       mon_constants=c)
    ctx.exhaustive = True


# Which clear() the specification describes: the loop test made under the condition lock.
CLEAR_IS_LOCKED = True


def main(ctx):
    ctx.assumptions += [
        'threading.Condition / Lock of CPython are correct',
        'semaphore state read through _value/_initial_value (the anchored state)',
    ]
    sem_level(ctx)
    try:
        from checks import poolcommon
    except ImportError:
        poolcommon = None
    if poolcommon is not None:
        poolcommon.run(ctx, 'C10')
        from checks import poolreal
        poolreal.run(ctx, 'C10')
