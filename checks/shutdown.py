"""Pool-side shutdown behaviour on real pools (C07: close()+join(); C08: terminate())."""
import json

from lib import monitor, sandbox

FORMULAS = {
    'C07': ['JoinReturns', 'DrainsAll', 'NoGuardWait', 'NothingLeftBehind', 'ClosedRefuses'],
    'C08': ['TerminateReturns', 'NoWorkerSurvives', 'ResultsIntact', 'ExitCallbacksRan'],
}
KNOWN = {'C07': [('TolMapCredit', ['NoGuardWait']), ('TolQuotaAfterClose', ['DrainsAll'])],
         'C08': [('TolExitRace', ['ExitCallbacksRan'])]}
CONSTS = dict(GuardTenths='250', TermTenths='100', TolMapCredit='TRUE', TolQuotaAfterClose='TRUE',
              TolExitRace='TRUE')


def scenarios(pid, thorough):
    out = []
    if pid == 'C07':
        for threads in (True, False):
            for procs in ((1, 2, 3) if thorough else (1, 2)):
                for quota in ((0, 1, 2) if thorough else (0, 1)):
                    mixes = [['apply']] if not threads else [['apply'], ['apply', 'map'], ['imap']]
                    for mix in mixes:
                        whens = ['now', 'after_first', 'after_all'] if thorough else ['now', 'after_first']
                        for when in (whens if threads else ['now']):
                            out.append(dict(kind='close_join', threads=threads, procs=procs, quota=quota,
                                            mix=mix, when=when, njobs=4 if not thorough else 6, dur=0.05))
        for procs in (1, 2):
            for mix in (['dying'], ['apply', 'dying']):
                out.append(dict(kind='close_join', threads=True, procs=procs, quota=0, mix=mix, when='now',
                                njobs=2, dur=0.05))
        # close() while the supervisor is half-way through replacing four recycled workers
        out.append(dict(kind='close_join', refill=True, threads=True, procs=4, quota=0, mix=['apply'],
                        when='refill', njobs=4, dur=0.05))
        # a job over the pool's hard time limit while close() / join() drain
        for threads in (True, False):
            out.append(dict(kind='close_join', threads=threads, procs=2, quota=0, mix=['apply', 'overlimit'],
                            when='now', njobs=2, dur=0.05, limit=1.5))
    else:
        for threads in (True, False):
            for procs in ((1, 2, 3) if thorough else (1, 2)):
                for sit in ('idle', 'mid_task', 'queued', 'swallow'):
                    out.append(dict(kind='terminate', threads=threads, procs=procs, situation=sit))
        # exit callbacks that take a while (F17: the signal of terminate() arrives inside them)
        out.append(dict(kind='terminate', threads=True, procs=2, situation='idle', slowexit=True))
        out.append(dict(kind='gc'))
        # the termination signal is configurable (REMAP_SIGTERM, read when billiard is imported; SIGTERM
        # itself is then ignored by the workers): every path that ends workers must use the configured one
        for threads, sit in ((True, 'mid_task'), (False, 'idle'), (True, 'swallow')) if thorough else \
                ((True, 'mid_task'),):
            out.append(dict(kind='terminate', threads=threads, procs=2, situation=sit, remap='SIGQUIT'))
    return out


def design(ctx, thorough):
    """Close.tla: the close()/join() protocol, exhaustively, incl. liveness (join returns)"""
    from lib import recipe

    def c(procs, njobs, quota, maxw, sup):
        return dict(Procs=str(procs), NJobs=str(njobs), Quota=str(quota), MaxW=str(maxw),
                    Supervise='TRUE' if sup else 'FALSE')
    units = [('close-noquota', c(2, 3, 0, 3, False)), ('close-noquota-1', c(1, 3, 0, 2, False)),
             ('close-pinned-quota', c(2, 3, 1, 4, False)), ('close-supervised-quota', c(2, 3, 1, 7, True))]
    if thorough:
        units += [('close-noquota-3', c(3, 5, 0, 4, False)), ('close-supervised-quota2', c(2, 4, 2, 7, True))]
    for label, cc in units:
        res = recipe.tlc_only(label, 'Close', constants=cc, spec='Spec', view=None,
                              invariants=['DrainsAll', 'NothingLeftBehind'], properties=['JoinReturns'],
                              workers=4, timeout=900, heap='3g')
        recipe.account(ctx, label, 'Close', cc, res)


def run(ctx, pid):
    thorough = ctx.tier == 'thorough'
    if pid == 'C07':
        design(ctx, thorough)
    scen = scenarios(pid, thorough)
    # map/quota scenarios on the pinned design take 30 s each (known findings): keep few in quick
    if not thorough and pid == 'C07':
        slow = [s for s in scen if ('map' in s['mix'] and s['procs'] >= 2) or s['quota']]
        fast = [s for s in scen if s not in slow]
        scen = fast + [s for s in slow if s['procs'] == 2 and s['when'] == 'now'
                       and (s['quota'] == 0 or s['mix'] == ['apply'])][:3]
    scale = sandbox.time_scale()
    def drive(scs, timeout):
        # one interpreter per value of the import-time configuration
        out = []
        for remap in sorted(set(s.get('remap', '') for s in scs)):
            part = [s for s in scs if s.get('remap', '') == remap]
            env = {'VERIF_TIME_SCALE': str(scale)}
            if remap:
                env['REMAP_SIGTERM'] = remap
            rc, d, log = sandbox.run_driver('harness.shutdown_main', [ctx.tier, json.dumps(part)],
                                            timeout=timeout, env=env)
            if rc != 0 or d is None:
                return rc or 2, None, log
            out += d
        return 0, out, ''
    rc, data, log = drive(scen, (3000 if thorough else 900) * scale)
    if rc != 0 or data is None:
        sandbox.driver_failed('shutdown', rc, log)
    forms = FORMULAS[pid]
    consts = dict(CONSTS, TermTenths=str(int(100 * scale)),
                  GuardTenths=str(min(290, int(250 * scale))))
    ctx.note('real_time_scale', scale)
    ctx.traces += len(data)
    ctx.replay_steps += len(data)
    ctx.sample({'scenario': data[0]['scenario'], 'observed': {k: v for k, v in data[0].items() if k != 'scenario'}})
    ctx.note('shutdown_scenarios', len(data))
    errs = [d for d in data if d.get('error')]
    if errs:
        raise RuntimeError('shutdown driver scenario error: %r' % (errs[0],))
    _, verdicts = monitor.check('Shutdown', data, invariants=forms, constants=consts)
    # a sampled real execution is a violation only if it is reproducible: the offending scenarios
    # are run twice more, and the formula must be falsified each time (a deterministic defect always
    # is; known rare races of the code -- see DESIGN A.4 -- are recorded, not reported)
    pending = {}
    for v in verdicts:
        d = data[v['trace']]
        pending.setdefault(json.dumps(d['scenario'], sort_keys=True), (d, set()))[1].add(v['name'])
    unconfirmed = []
    for key, (d, names) in pending.items():
        still = set(names)
        for attempt in range(2):
            rc2, again, _ = drive([d['scenario']], 300 * scale)
            if rc2 != 0 or not again:
                break
            # (a broken scenario may fail differently each time -- hang once, take the host down the
            #  next: any falsified formula of the property confirms it)
            _, v2 = monitor.check('Shutdown', again, invariants=forms, constants=consts)
            if not v2:
                still = set()
                break
        for name in sorted(names):
            if name in still:
                ctx.violation('real pool, %r: %s falsified, 3 runs out of 3 (%r)' % (
                    d['scenario'], name, {k: d[k] for k in d if k != 'scenario'}),
                    'observed:shutdown:%s' % name, replay=d)
            else:
                unconfirmed.append({'scenario': d['scenario'], 'formula': name,
                                    'observed': {k: d[k] for k in d if k != 'scenario'}})
    if unconfirmed:
        ctx.note('unreproducible_observations', unconfirmed)
        ctx.log('%d observation(s) falsified a formula once but not again: recorded, not reported' % len(unconfirmed))
    for tol, fs in KNOWN[pid]:
        c2 = dict(consts, **{tol: 'FALSE'})
        _, verdicts = monitor.check('Shutdown', data, invariants=[f for f in fs if f in forms], constants=c2)
        for v in verdicts[:1]:
            d = data[v['trace']]
            ctx.violation('with tolerance %s off, real pool %r falsifies %s' % (tol, d['scenario'], v['name']),
                          'strict:%s:%s' % (tol, v['name']), replay=d)
    ctx.assumptions.append('real-process shutdown behaviour is sampled over the scenario matrix, not '
                           'enumerated; every scenario runs in a sandboxed process group')
