"""C08 -- terminate() and termination signals always end workers promptly.

Part 1 (worker side): Worker.tla -- a worker that receives the termination signal at any
blocking point stops its task, runs its exit callback once and exits without taking
further jobs.  Part 2 (pool side: terminate() steps) : checks/shutdown.py.
"""
from checks import workercommon


def main(ctx):
    workercommon.run(ctx, 'C08')
    try:
        from checks import shutdown
    except ImportError:
        shutdown = None
    if shutdown is not None:
        shutdown.run(ctx, 'C08')
