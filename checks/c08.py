"""C08 -- terminate() and termination signals always end workers promptly.

Part 1 (worker side): Worker.tla -- a worker that receives the termination signal at any
blocking point stops its task, runs its exit callback once and exits without taking
further jobs.  Part 1b (parent side): Feed.tla -- told to stop, the task feeder puts nothing
more.  Part 2 (pool side: terminate() steps) : checks/shutdown.py.
"""
from checks import feedcommon, workercommon


def main(ctx):
    workercommon.run(ctx, 'C08')
    feedcommon.run(ctx, 'C08')      # terminate(): the task feeder stops feeding at once
    try:
        from checks import shutdown
    except ImportError:
        shutdown = None
    if shutdown is not None:
        shutdown.run(ctx, 'C08')
    from checks import poolreal
    poolreal.run(ctx, 'C08')     # one signalled worker with a slow exit callback; terminate() during a refill
