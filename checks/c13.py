"""C13 -- connections deliver every message intact, in order, within bounds."""
from concurrent.futures import ThreadPoolExecutor

from harness.conn import ConnAdapter
from lib import recipe

INV = ['InOrder', 'OversizeStops', 'BytesConserved']
PROPS = ['NoReadAfterStop', 'NeverShort', 'EOFExact', 'OversizeOnlyIfTooBig', 'WithinLimit',
         'ArgErrorsBeforeIO', 'IntoExact']
MINV = INV + ['BytesIntact', 'OutcomesKnown', 'SendRefusalsExact', 'AsksWhatRemains']


def consts(seqs, fragall, extra, maxlens, bufs, eintr=1, ops=0, duplex=False):
    return dict(MsgSeqs=seqs, FragAll=fragall, FragExtra=extra, MaxLens=maxlens, Bufs=bufs,
                Duplex=duplex, MaxEintr=eintr, MaxOps=ops, Thresh=16384)


def tla(c):
    def sq(s):
        return '<<' + ', '.join(str(x) for x in s) + '>>'
    return dict(MsgSeqs='{' + ', '.join(sq(s) for s in c['MsgSeqs']) + '}',
                FragAll=str(c['FragAll']), FragExtra='{' + ', '.join(map(str, c['FragExtra'])) + '}',
                MaxLens='{' + ', '.join(map(str, c['MaxLens'])) + '}',
                Bufs='{' + ', '.join(sq(b) for b in c['Bufs']) + '}',
                Duplex='TRUE' if c['Duplex'] else 'FALSE', MaxEintr=str(c['MaxEintr']),
                MaxOps=str(c['MaxOps']), Thresh=str(c['Thresh']))


class Maker:
    def __init__(self, c):
        self.c = c

    def __call__(self):
        return ConnAdapter(self.c)


def main(ctx):
    thorough = ctx.tier == 'thorough'
    if thorough:
        smalls = [consts([[0, 2], [3]], 7, [], [-1, 1], [[2, 0], [4, 1]]),
                  consts([[2, 1]], 7, [], [-1, 1], [[3, 1]], duplex=True),
                  consts([[16385, 0], [16384]], 0, [3, 4, 5, 16384], [-1, 16384], [[16385, 0]],
                         eintr=0, ops=6),
                  consts([[5, 2], [8], [4, 6]], 5, [], [-1], [[8, 4], [8, 0], [12, 4]], eintr=0)]
        wide = consts([[0, 2], [3], [1, 0, 2]], 7, [], [-1, 1, 2], [[2, 0], [4, 1]])
        walks = consts([[0, 1, 16384, 16385, 70000], [70000, 0, 3], [1048576, 5]], 3,
                       [4, 5, 4096, 16384, 16388, 65536], [-1, 0, 16384, 70000],
                       [[16384, 0], [70004, 4], [8, 2]], eintr=3, ops=0)
        nwalks = 3000
    else:
        smalls = [consts([[1], [0, 1]], 7, [], [-1, 0], [[2, 1]], eintr=0),
                  consts([[0, 2]], 7, [], [-1, 1], [[2, 0]], duplex=True),
                  consts([[16385, 0]], 0, [4, 5, 16384], [-1, 16384], [[16385, 0]], eintr=0, ops=5),
                  consts([[5, 2], [8]], 3, [], [-1], [[8, 4], [8, 0], [12, 4]], eintr=0)]   # item-wise buffers
        wide = consts([[0, 2], [3], [1, 0]], 7, [], [-1, 1, 2], [[2, 0], [4, 1]])
        walks = consts([[0, 1, 16384, 16385, 70000], [70000, 0, 3]], 3,
                       [4, 5, 4096, 16384, 16388, 65536], [-1, 0, 16384, 70000],
                       [[16384, 0], [70004, 4], [8, 2]], eintr=3, ops=0)
        nwalks = 400
    ctx.assumptions += ['the kernel moves bytes faithfully and in order (stream semantics); the '
                        'scripted write/read explore how it may split, interrupt or end them',
                        'payload bytes are real (SHA-256 streams per message), compared by the '
                        'harness and surfaced to the monitor as the `intact` flag',
                        'Windows PipeConnection is out of scope']

    def s_run(i, c):
        return recipe.tlc_only('conn-small%d' % i, 'Conn', constants=tla(c), invariants=INV,
                               properties=PROPS, emit=True, timeout=2400, heap='4g')

    def w_run():
        return recipe.tlc_only('conn-wide', 'Conn', constants=tla(wide), invariants=INV,
                               properties=PROPS, workers=8, timeout=1800, heap='6g', budget_ok=True)

    def k_run():
        return recipe.tlc_only('conn-walks', 'Conn', constants=tla(walks), invariants=INV,
                               properties=PROPS, emit=True, simulate=nwalks, depth=60,
                               seed=ctx.seed, timeout=1500, heap='3g', budget_ok=True)

    with ThreadPoolExecutor(5) as ex:
        fs = [ex.submit(s_run, i, c) for i, c in enumerate(smalls)]
        fw = ex.submit(w_run)
        fk = ex.submit(k_run)
        for i, (c, f) in enumerate(zip(smalls, fs)):
            g = recipe.account(ctx, 'conn-small%d' % i, 'Conn', tla(c), f.result(), emit=True)
            ctx.sample({'unit': 'conn-small%d' % i, 'constants': c, 'states': len(g.state),
                        'edges': g.n_edges})
            recipe.conform(ctx, 'conn-small%d' % i, g, Maker(c), mon_module='ConnMonitor',
                           mon_invariants=MINV, mon_properties=PROPS, mon_constants=tla(c),
                           sample=None if thorough else 20000)
        behs = recipe.account(ctx, 'conn-walks', 'Conn', tla(walks), fk.result(), emit=True,
                              simulate=True)
        if behs:
            ctx.sample({'walk': [e['act'] for e in behs[0]][:25], 'msgs': behs[0][0]['from']['msgs']})
        recipe.conform(ctx, 'conn-walks', behs, Maker(walks), mon_module='ConnMonitor',
                       mon_invariants=MINV, mon_properties=PROPS, mon_constants=tla(walks),
                       monitor_all=True)
        recipe.account(ctx, 'conn-wide', 'Conn', tla(wide), fw.result())
    ctx.exhaustive = True
    real_kernel(ctx)


OBS_INV = ['InOrderIntact', 'AllDelivered', 'NothingInvented', 'CleanEnd', 'TornReported', 'NoEarlyEnd']


def real_kernel(ctx):
    """binding B: real pipes and socket pairs between two processes, judged by ConnObs.tla"""
    from lib import monitor, sandbox
    scale = sandbox.time_scale()
    rc, data, log = sandbox.run_driver_patient('connection', 'harness.conn_main', [ctx.tier], timeout=400 * scale,
                                       env={'VERIF_TIME_SCALE': str(scale)})
    if rc != 0 or data is None:
        sandbox.driver_failed('connection', rc, log)
    ctx.traces += len(data)
    ctx.replay_steps += sum(len(d['results']) for d in data)
    ctx.note('real_connection_scenarios', [{k: d[k] for k in ('kind', 'mode', 'n', 'kill_after', 'tail')}
                                           for d in data])
    _, verdicts = monitor.check('ConnObs', data, invariants=OBS_INV)
    seen = set()
    for v in verdicts:
        d = data[v['trace']]
        key = (v['name'], d['kind'], d['mode'], d['kill_after'])
        if key in seen:
            continue
        seen.add(key)
        ctx.violation('real %s connection (%s, sender killed after %d): %s falsified: %r' % (
            d['kind'], d['mode'], d['kill_after'], v['name'], [r for r in d['results'] if r[1] != 'ok'] + [d['tail']]),
            'observed:conn:%s:%s' % (v['name'], d['kind']), replay=d)
