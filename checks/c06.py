"""C06 -- soft time limit is raised once, inside the task that exceeded it."""
from checks import poolcommon, poolreal, racecommon


def main(ctx):
    racecommon.run(ctx, 'C06')     # the soft-limit branch of the scanner against a result being processed
    poolcommon.run(ctx, 'C06')
    poolreal.run(ctx, 'C06')
