"""C04 -- every submitted job resolves exactly once, with its own outcome."""
from checks import poolparts, poolcommon, poolreal


def main(ctx):
    poolcommon.run(ctx, 'C04')
    poolparts.run(ctx, 'C04')         # multi-part jobs under supervision
    poolreal.run(ctx, 'C04')
