"""C07 -- close() then join() drains all work and leaves no processes behind."""
from checks import feedcommon, shutdown


def main(ctx):
    feedcommon.run(ctx, 'C07')
    shutdown.run(ctx, 'C07')
