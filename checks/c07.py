"""C07 -- close() then join() drains all work and leaves no processes behind."""
from checks import feedcommon, poolcommon, shutdown


def main(ctx):
    feedcommon.run(ctx, 'C07')
    poolcommon.run(ctx, 'C07')     # results of every generation of workers are credited (no guard wait)
    shutdown.run(ctx, 'C07')
