"""C07 -- close() then join() drains all work and leaves no processes behind."""
from checks import shutdown


def main(ctx):
    shutdown.run(ctx, 'C07')
