"""MgrSrv.tla -- the manager server's reference counting for one referent handed to several
clients, at the granularity of the server mutex (C20)."""
from harness.mgrsrv import MgrSrvAdapter
from lib import recipe

INV = ['RefExact', 'AliveWhileReferenced', 'DisposedWhenUnreferenced']
PROPS = []
# judged on observed executions: only what needs no ghost bookkeeping (after a divergence the adapter's
# `held` follows the specification's action names, not necessarily what the code did)
MON_INV = ['AliveWhileReferenced', 'DisposedWhenUnreferenced']


class Maker:
    def __init__(self, c):
        self.c = c

    def __call__(self):
        return MgrSrvAdapter(self.c)


def tla_progs(progs):
    return '<<' + ', '.join('<<' + ', '.join('"%s"' % o for o in p) + '>>' for p in progs) + '>>'


def run(ctx, prop='C20'):
    thorough = ctx.tier == 'thorough'
    units = [('mgrsrv-2', [['create', 'decref'], ['create', 'decref']]),
             ('mgrsrv-3', [['create', 'incref', 'decref', 'decref'], ['create', 'decref'], ['create', 'decref']])]
    if thorough:
        units.append(('mgrsrv-3b', [['create', 'incref', 'decref', 'decref'], ['create', 'decref', 'create', 'decref'],
                                    ['create', 'decref']]))
    for label, progs in units:
        tc = dict(Progs=tla_progs(progs))
        res = recipe.tlc_only(label, 'MgrSrv', constants=tc, invariants=INV, properties=PROPS, emit=True,
                              timeout=600, heap='2g')
        g = recipe.account(ctx, label, 'MgrSrv', tc, res, emit=True)
        ctx.sample({'unit': label, 'programs': progs, 'states': len(g.state), 'edges': g.n_edges}, limit=12)
        recipe.conform(ctx, label, g, Maker(dict(Progs=progs)), mon_module='MgrSrvMonitor', mon_invariants=MON_INV,
                       mon_properties=PROPS, mon_constants=tc,
                       sample=(None if thorough or g.n_edges < 30000 else 30000))
