"""C20 -- manager proxies behave like the local object; referents live as long as proxies."""
from concurrent.futures import ThreadPoolExecutor

from harness.mgr import MgrAdapter
from lib import monitor, recipe, sandbox

INV = ['RefExact', 'AliveWhileReferenced', 'DisposedWhenUnreferenced', 'NoLeak', 'DomainsAgree']
PROPS = ['HiddenRefused']


def consts(clients, objs, prox, ln, ser, fine=False):
    return dict(Clients='{' + ', '.join(map(str, range(1, clients + 1))) + '}', MaxObjs=str(objs),
                MaxProxies=str(prox), MaxLen=str(ln), MaxSer=str(ser),
                FineCreate='TRUE' if fine else 'FALSE')


def main(ctx):
    from checks import mgrsrvcommon
    mgrsrvcommon.run(ctx, 'C20')      # reference counting of one referent at server-mutex granularity
    thorough = ctx.tier == 'thorough'
    small = consts(2, 2, 3, 2, 3)
    wide = consts(2, 2, 3, 2, 4 if not thorough else 5)
    fine = consts(2, 2, 3, 1, 4, fine=True)
    walks = consts(3, 3, 5, 3, 9)

    def run(label, c, **kw):
        return recipe.tlc_only(label, 'Mgr', constants=c, invariants=INV, properties=PROPS,
                               timeout=1800, heap='4g', budget_ok=True, **kw)
    with ThreadPoolExecutor(4) as ex:
        fs = ex.submit(run, 'mgr-small', small, emit=True)
        fw = ex.submit(run, 'mgr-wide', wide, workers=6)
        ff = ex.submit(run, 'mgr-finecreate', fine, workers=6)
        fk = ex.submit(run, 'mgr-walks', walks, emit=True, simulate=2000 if thorough else 300,
                       depth=30, seed=ctx.seed)
        rc, data, log = sandbox.run_driver_patient('manager', 'harness.mgr_main', [ctx.tier, ctx.seed],
                                           timeout=900 if thorough else 240)
        g = recipe.account(ctx, 'mgr-small', 'Mgr', small, fs.result(), emit=True)
        ctx.sample({'unit': 'mgr-small', 'states': len(g.state), 'edges': g.n_edges})
        recipe.conform(ctx, 'mgr-small', g, MgrAdapter, mon_module='MgrMonitor',
                       mon_invariants=INV, mon_properties=PROPS + ['CallsAnswered'],
                       mon_constants=small, sample=None if thorough else 6000)
        behs = recipe.account(ctx, 'mgr-walks', 'Mgr', walks, fk.result(), emit=True, simulate=True)
        if behs:
            ctx.sample({'walk': [e['act'] for e in behs[0]][:15]})
        recipe.conform(ctx, 'mgr-walks', behs, MgrAdapter, mon_module='MgrMonitor',
                       mon_invariants=INV, mon_properties=PROPS + ['CallsAnswered'],
                       mon_constants=walks, monitor_all=True)
        recipe.account(ctx, 'mgr-wide', 'Mgr', wide, fw.result())
        recipe.account(ctx, 'mgr-finecreate', 'Mgr', fine, ff.result())
    if rc != 0 or data is None:
        sandbox.driver_failed('manager', rc, log)
    obs = data['lifetime']
    mc = dict(walks, MaxObjs='50', MaxProxies='50', MaxSer='1000')
    _, verdicts = monitor.check('MgrMonitor', obs, invariants=INV, properties=['CallsAnswered'],
                                constants=mc)
    ctx.traces += len(obs)
    ctx.replay_steps += sum(len(o) for o in obs)
    for v in verdicts:
        ctx.violation('real manager process: referent life time falsifies %s' % v['name'],
                      'observed:mgr:%s' % v['name'], replay={'obs': obs[v['trace'] or 0], 'at': v['at']})
    for b in data['twin']['bad']:
        ctx.violation('proxy differs from the local object: ' + b, 'twin:' + b.split(':')[0], replay=b)
    c = data['concurrent']
    if not (c['len'] == c['distinct'] == c['dict'] == c['value'] == c['expected'] and c['per_client_order']
            and not c.get('crossed_replies') and not c.get('stuck')
            and all(x == 0 for x in c.get('exitcodes', []))):
        ctx.violation('concurrent single operations were not atomic: %r' % c, 'observed:mgr:atomic', replay=c)
    if data['key'] != {'connect': 'refused', 'right_key': 'accepted'}:
        ctx.violation('authentication key not enforced: %r' % data['key'], 'observed:mgr:key', replay=data['key'])
    for e in data.get('errors', []):
        ctx.violation('an operation that is valid on the local object raised through the manager: ' + e,
                      'observed:mgr:error:' + e.split(':')[0], replay=e)
    if data['hostile'].get('served'):
        ctx.violation('a client without the key was served: %r' % data['hostile'], 'observed:mgr:hostile',
                      replay=data['hostile'])
    st = data['shared_twice']
    if not (st['same_object'] and st['alive'] and st['objects_after_drop'] == st['objects_before']):
        ctx.violation('an object handed out twice did not outlive the first of its proxies: %r' % st,
                      'observed:mgr:shared_twice', replay=st)
    ctx.note('hostile_client', data['hostile'])
    ctx.note('shared_twice', st)
    ctx.note('twin_ops', data['twin']['ops'])
    ctx.note('concurrent', c)
    if obs:
        ctx.sample({'lifetime_trace': [o['act'] for o in obs[0]]})
    ctx.assumptions += ['referent semantics are not re-specified: the local object is the model '
                        '(twin comparison by the harness); in-process replay replaces the socket '
                        'client by one that hands requests to the real Server methods']
