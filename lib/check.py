"""Per-check context: evidence accounting, violation / known-finding reporting."""
import hashlib
import json
import os
import re
import sys
import time

VERIF = os.path.dirname(os.path.dirname(os.path.abspath(__file__)))
EVID = os.environ.get('VERIF_EVIDENCE_DIR') or os.path.join(VERIF, 'evidence')
REPLAYS = os.path.join(EVID, 'replays')
KNOWN = os.path.join(VERIF, 'known_findings.json')


def load_known():
    try:
        with open(KNOWN) as fh:
            return json.load(fh)['findings']
    except FileNotFoundError:
        return []


class Ctx:
    def __init__(self, pid, tier, seed, level='model_checking'):
        self.pid, self.tier, self.seed, self.level = pid, tier, seed, level
        self.t0 = time.time()
        self.states = 0
        self.transitions = 0
        self.traces = 0           # traces / behaviours validated against the implementation
        self.replay_steps = 0
        self.samples = []
        self.assumptions = []
        self.extra = {}
        self.violations = []
        self.known_hits = []
        self.divergences = []
        self.tlc_runs = []
        self.exhaustive = None
        self.incomplete = False
        self.known = [k for k in load_known() if pid in k.get('properties', [])]

    # -- accounting --------------------------------------------------------
    def tlc(self, label, res, expect_ok=True):
        self.states += res.distinct
        if not getattr(res, 'complete', True):
            self.incomplete = True
        self.transitions += res.generated
        self.tlc_runs.append({'label': label, 'mode': res.mode, 'distinct_states': res.distinct,
                              'states_generated': res.generated, 'depth': res.depth,
                              'wall_s': round(res.wall_s, 2), 'complete': getattr(res, 'complete', True),
                              'violations': [v['name'] for v in res.violations]})
        return res

    def sample(self, s, limit=6):
        if len(self.samples) < limit:
            self.samples.append(s)

    def note(self, key, val):
        self.extra[key] = val

    def log(self, *a):
        print('[%s %s %.1fs]' % (self.pid, self.tier, time.time() - self.t0), *a, flush=True)

    # -- verdicts ----------------------------------------------------------
    def violation(self, what, signature, replay=None):
        """Report a property violation unless it matches a listed known finding."""
        for k in self.known:
            if k.get('status', 'open') != 'open':
                continue
            if re.search(k['match'], signature):
                if k['id'] not in [h['id'] for h in self.known_hits]:
                    self.known_hits.append({'id': k['id'], 'signature': signature, 'what': what})
                    print('KNOWN-FINDING: property=%s %s [%s] %s' % (
                        self.pid, k['id'], k['what'], signature), flush=True)
                return False
        os.makedirs(REPLAYS, exist_ok=True)
        blob = json.dumps({'property': self.pid, 'what': what, 'signature': signature,
                           'replay': replay}, indent=1, default=str)
        h = hashlib.sha1(blob.encode()).hexdigest()[:10]
        path = os.path.join(REPLAYS, '%s-%s.json' % (self.pid, h))
        with open(path, 'w') as fh:
            fh.write(blob)
        self.violations.append({'what': what, 'signature': signature, 'replay': path})
        print('VIOLATION property=%s replay=%s' % (self.pid, path), flush=True)
        print('  what: %s' % what, flush=True)
        print('  signature: %s' % signature, flush=True)
        return True

    def divergence(self, d):
        """Layer-1 conformance failure that the monitor did not turn into a violation."""
        if len(self.divergences) < 20:
            self.divergences.append(d)

    # -- output --------------------------------------------------------------
    def finish(self):
        cov = {
            'states': self.states,
            'transitions': self.transitions,
            'traces_validated_against_impl': self.traces,
            'samples': self.samples or ['(no sample recorded)'],
            'replay_steps': self.replay_steps,
            'tlc_runs': self.tlc_runs,
            'divergences_not_violations': self.divergences,
            'known_findings_hit': self.known_hits,
        }
        if self.exhaustive is not None:
            cov['exhaustive'] = bool(self.exhaustive) and not self.incomplete
        cov.update(self.extra)
        ev = {
            'property_id': self.pid, 'tier': self.tier, 'seed': self.seed,
            'level': self.level, 'coverage': cov,
            'assumptions': self.assumptions,
            'wall_s': round(time.time() - self.t0, 2),
            'violations': len(self.violations),
        }
        os.makedirs(EVID, exist_ok=True)
        tmp = os.path.join(EVID, '%s.json.tmp' % self.pid)
        with open(tmp, 'w') as fh:
            json.dump(ev, fh, indent=1, default=str)
        os.replace(tmp, os.path.join(EVID, '%s.json' % self.pid))
        self.log('states=%d transitions=%d impl_traces=%d replay_steps=%d violations=%d known=%d divergences=%d'
                 % (self.states, self.transitions, self.traces, self.replay_steps,
                    len(self.violations), len(self.known_hits), len(self.divergences)))
        return 1 if self.violations else 0
