"""TLC runner, config generator and output parsers used by every check.

Nothing here knows about billiard; see lib/replay.py for the graph walker.
"""
import json
import os
import re
import shutil
import subprocess
import tempfile
import time

VERIF = os.path.dirname(os.path.dirname(os.path.abspath(__file__)))
SPECS = os.path.join(VERIF, 'specs')
JAR = '/opt/veriftools/tla/tla2tools.jar'
DEPS = '/opt/veriftools/tla/CommunityModules-deps.jar'


class TLCError(Exception):
    """Machinery failure (parse error, TLC crash, timeout) -- exit status 2."""


class TLCResult:
    def __init__(self):
        self.rc = None
        self.out = ''
        self.generated = 0
        self.distinct = 0
        self.depth = 0
        self.violations = []      # list of dicts: kind, name, trace(text)
        self.lines = []           # raw PrintT(ToJson(..)) output lines
        self._printed = None
        self.wall_s = 0.0
        self.coverage = {}        # action name -> (distinct, total)
        self.cmd = ''
        self.mode = 'bfs'
        self.complete = True

    @property
    def ok(self):
        return not self.violations

    @property
    def printed(self):
        """decoded JSON objects printed with PrintT(ToJson(..)) (decoded on demand)"""
        if self._printed is None:
            out = []
            for l in self.lines:
                try:
                    out.append(json.loads(json.loads(l)))
                except ValueError:
                    pass
            self._printed = out
        return self._printed

    @printed.setter
    def printed(self, v):
        self._printed = v
        if v is None:
            self.lines = []


def make_cfg(constants=None, init='Init', next_='Next', spec=None,
             invariants=(), properties=(), constraints=(),
             action_constraints=(), view=None, symmetry=None,
             deadlock=False, postcondition=None, alias=None):
    lines = []
    if spec:
        lines.append('SPECIFICATION %s' % spec)
    else:
        lines.append('INIT %s' % init)
        lines.append('NEXT %s' % next_)
    if constants:
        lines.append('CONSTANTS')
        for k, v in constants.items():
            # every constant is defined in the generated MC module (cfg files cannot
            # express tuples / sets of tuples)
            lines.append('  %s <- MC_%s' % (k, k))
        lines.append('\\* MCDEFS ' + json.dumps(constants))
    for i in invariants:
        lines.append('INVARIANT %s' % i)
    for p in properties:
        lines.append('PROPERTY %s' % p)
    for c in constraints:
        lines.append('CONSTRAINT %s' % c)
    for c in action_constraints:
        lines.append('ACTION_CONSTRAINT %s' % c)
    if view:
        lines.append('VIEW %s' % view)
    if symmetry:
        lines.append('SYMMETRY %s' % symmetry)
    if postcondition:
        lines.append('POSTCONDITION %s' % postcondition)
    if alias:
        lines.append('ALIAS %s' % alias)
    lines.append('CHECK_DEADLOCK %s' % ('TRUE' if deadlock else 'FALSE'))
    return '\n'.join(lines) + '\n'


def tla_val(v):
    """Python value -> TLA+ constant expression usable in a cfg."""
    if isinstance(v, bool):
        return 'TRUE' if v else 'FALSE'
    if isinstance(v, int):
        return str(v)
    if isinstance(v, str):
        return '"%s"' % v
    if isinstance(v, (set, frozenset)):
        return '{' + ', '.join(tla_val(x) for x in sorted(v, key=repr)) + '}'
    if isinstance(v, (list, tuple)):
        return '<<' + ', '.join(tla_val(x) for x in v) + '>>'
    raise TypeError(v)


_STAT = re.compile(r'(\d+) states generated, (\d+) distinct states found')
_DEPTH = re.compile(r'depth of the complete state graph search is (\d+)')
_PROG = re.compile(r'Progress\((\d+)\) at [^\n]*?: ([\d,]+) states generated[^\n]*?, ([\d,]+) distinct states found')
_SIMSTAT = re.compile(r'The number of states generated: (\d+)')
_INV = re.compile(r'Invariant (\S+) is violated')
_ACTPROP = re.compile(r'Action property (\S+) is violated')
_TEMPORAL = re.compile(r'Temporal properties were violated')
_DEADLOCK = re.compile(r'Deadlock reached')
_POST = re.compile(r'Postcondition|POSTCONDITION')
_COV = re.compile(r'^<(\w+) line (\d+), col \d+ to line \d+, col \d+ of module (\w+)>: (\d+):(\d+)')


def run(module, cfg_text, *, workers=None, simulate=None, depth=None, seed=None,
        timeout=900, env=None, coverage=False, keep=False, extra=(),
        heap='8g', dfs_queue=False, cont=False, specs_dir=None, budget_ok=False):
    """Run TLC on specs/<module>.tla with the given cfg text.

    simulate: None for exhaustive BFS, or number of behaviours for -simulate.
    Returns TLCResult.  Raises TLCError for machinery failures.
    budget_ok: the timeout is an exploration budget, not a failure: TLC is stopped and the
    result (complete=False) carries what the last progress report said.
    """
    specs_dir = specs_dir or SPECS
    work = tempfile.mkdtemp(prefix='verif-tlc-', dir='/var/tmp')
    res = TLCResult()
    try:
        # copy all specs so EXTENDS / INSTANCE resolve
        for f in os.listdir(specs_dir):
            if f.endswith('.tla'):
                shutil.copy(os.path.join(specs_dir, f), work)
        defs = None
        for line in cfg_text.splitlines():
            if line.startswith('\\* MCDEFS '):
                defs = json.loads(line[len('\\* MCDEFS '):])
        if defs is not None:
            mc = 'MC' + module
            with open(os.path.join(work, mc + '.tla'), 'w') as fh:
                fh.write('---- MODULE %s ----\nEXTENDS %s\n' % (mc, module))
                for k, v in defs.items():
                    fh.write('MC_%s == %s\n' % (k, v))
                fh.write('====\n')
            module = mc
        cfg = os.path.join(work, module + '.cfg')
        with open(cfg, 'w') as fh:
            fh.write(cfg_text)
        if workers is None:
            workers = min(16, os.cpu_count() or 1)
        jopts = ['-XX:+UseParallelGC', '-Xmx' + heap]
        if dfs_queue:
            jopts.append('-Dtlc2.tool.queue.IStateQueue=StateDeque')
        cmd = ['java'] + jopts + ['-cp', JAR + ':' + DEPS, 'tlc2.TLC',
                                  '-workers', str(workers),
                                  '-metadir', os.path.join(work, 'meta'),
                                  '-noGenerateSpecTE']
        if simulate is not None:
            cmd += ['-simulate', 'num=%d' % simulate]
            res.mode = 'simulate'
        if depth is not None:
            cmd += ['-depth', str(depth)]
        if seed is not None:
            cmd += ['-seed', str(seed)]
        if coverage:
            cmd += ['-coverage', '1']
        if cont:
            cmd += ['-continue']
        cmd += list(extra)
        cmd += ['-config', cfg, os.path.join(work, module + '.tla')]
        res.cmd = ' '.join(cmd)
        e = dict(os.environ)
        e.pop('JAVA_TOOL_OPTIONS', None)
        if env:
            e.update(env)
        t0 = time.time()
        outpath = os.path.join(work, 'tlc.out')
        with open(outpath, 'wb') as ofh:
            try:
                p = subprocess.run(cmd, cwd=work, env=e, stdout=ofh, stderr=subprocess.STDOUT,
                                   timeout=timeout)
            except subprocess.TimeoutExpired as exc:
                if not budget_ok:
                    raise TLCError('TLC timed out after %ss on %s' % (timeout, module)) from exc
                p = None
        res.wall_s = time.time() - t0
        res.out = _read_bounded(outpath)
        out = res.out
        _parse(res)
        if p is None:
            res.complete = False
            res.mode = '%s (stopped at its %ds budget)' % (res.mode, timeout)
            res.rc = 0
            m = None
            for m in _PROG.finditer(out):
                pass
            if m:
                res.depth = int(m.group(1))
                res.generated = int(m.group(2).replace(',', ''))
                res.distinct = int(m.group(3).replace(',', ''))
            return res
        res.rc = p.returncode
        if res.rc != 0 and not res.violations:
            raise TLCError('TLC failed on %s (rc=%s):\n%s' % (
                module, res.rc, _tail(out)))
        return res
    finally:
        if not keep:
            shutil.rmtree(work, ignore_errors=True)


MAX_VIOLATION_BLOCKS = 60


def _read_bounded(path):
    """TLC's output, keeping every emitted JSON line and statistics line but only the first
    MAX_VIOLATION_BLOCKS error traces (with -continue a falsified invariant is reported for
    every offending state)."""
    keep = []
    blocks = 0
    skipping = False
    with open(path, 'r', errors='replace') as fh:
        for line in fh:
            if line.startswith('"'):
                keep.append(line)
                continue
            if ('is violated' in line or line.startswith('Error: Deadlock')) and not line.startswith('/'):
                blocks += 1
                skipping = blocks > MAX_VIOLATION_BLOCKS
            elif skipping and (_STAT.search(line) or line.startswith(('Finished in', 'Model checking',
                                                                      'The depth', 'Progress'))):
                skipping = False
            if not skipping:
                keep.append(line)
    return ''.join(keep)


def _tail(out, n=60):
    lines = [l for l in out.splitlines()
             if not l.startswith(('Parsing file', 'Semantic processing', 'Linting of', '"{'))]
    return '\n'.join(lines[-n:])


def _parse(res):
    out = res.out
    lines = out.splitlines()
    res.lines = [l for l in lines if l.startswith('"{') or l.startswith('"[')]
    m = None
    for m in _STAT.finditer(out):
        pass
    if m:
        res.generated, res.distinct = int(m.group(1)), int(m.group(2))
    else:
        m = _SIMSTAT.search(out)
        if m:
            res.generated = res.distinct = int(m.group(1))
    m = _DEPTH.search(out)
    if m:
        res.depth = int(m.group(1))
    # violations
    for i, l in enumerate(lines):
        kind = name = None
        mm = _INV.search(l)
        if mm:
            kind, name = 'invariant', mm.group(1)
        else:
            mm = _ACTPROP.search(l)
            if mm:
                kind, name = 'action_property', mm.group(1)
            elif _TEMPORAL.search(l):
                kind, name = 'temporal', 'temporal'
            elif _DEADLOCK.search(l):
                kind, name = 'deadlock', 'deadlock'
            elif 'is violated' in l and 'ostcondition' in l:
                kind, name = 'postcondition', 'postcondition'
            elif 'evaluating the postcondition' in l.lower() or 'Postcondition' in l and 'violated' in l:
                kind, name = 'postcondition', 'postcondition'
        if kind:
            trace = []
            for l2 in lines[i + 1:i + 20000]:
                if l2.startswith(('Finished in', 'The number of states', 'Progress')) or _STAT.search(l2):
                    break
                if l2.startswith(('Invariant ', 'Action property ', 'Error: Invariant ',
                                  'Error: Action property ')) and 'is violated' in l2:
                    break
                if l2.startswith(('Finished computing initial states', 'Computed ')):
                    break
                if l2.startswith('"{'):
                    continue
                trace.append(l2)
            res.violations.append({'kind': kind, 'name': name, 'trace': '\n'.join(trace)})
    # coverage
    for l in lines:
        mm = _COV.match(l)
        if mm:
            res.coverage[mm.group(1)] = (int(mm.group(4)), int(mm.group(5)))
    # semantic / parse errors
    if 'Semantic errors' in out or 'Parsing or semantic analysis failed' in out or '***Parse Error***' in out:
        raise TLCError('spec does not parse:\n' + _tail(out, 40))
    if 'Error: ' in out and not res.violations:
        # evaluation errors etc.
        idx = out.index('Error: ')
        raise TLCError('TLC error:\n' + out[idx:idx + 1200])


def sany(module, specs_dir=None):
    specs_dir = specs_dir or SPECS
    p = subprocess.run(['java', '-cp', JAR + ':' + DEPS, 'tla2sany.SANY',
                        os.path.join(specs_dir, module + '.tla')],
                       cwd=specs_dir, stdout=subprocess.PIPE, stderr=subprocess.STDOUT)
    out = p.stdout.decode()
    ok = p.returncode == 0 and 'error' not in out.lower().replace('errors: 0', '')
    return ok, out


# ---------------------------------------------------------------------------
# Labelled edges
# ---------------------------------------------------------------------------

def canon(o):
    return json.dumps(o, sort_keys=True, separators=(',', ':'))


class Graph:
    """Labelled transition graph reconstructed from EmitEdge / EmitInit output.
    Nodes are small integers; state[n] is the projected state (dict)."""

    def __init__(self):
        self.inits = []           # node ids
        self.state = []           # id -> projected state (dict)
        self.out = []             # id -> list of (act(dict), id_to)
        self.n_edges = 0
        self._ids = {}

    def node(self, st):
        k = canon(st)
        n = self._ids.get(k)
        if n is None:
            n = self._ids[k] = len(self.state)
            self.state.append(st)
            self.out.append([])
        return n

    @classmethod
    def from_lines(cls, lines):
        """Fast path: split each emitted edge into its raw from/act/to substrings and
        parse every distinct state only once."""
        g = cls()
        ids = {}
        seen_edges = set()

        cids = {}

        def node(raw):
            n = ids.get(raw)
            if n is None:
                # TLC prints freshly built records un-normalised (field order as written)
                # and stored ones sorted: identify by canonical form, remember both spellings
                st = json.loads(raw)
                k = canon(st)
                n = cids.get(k)
                if n is None:
                    n = cids[k] = len(g.state)
                    g.state.append(st)
                    g.out.append([])
                ids[raw] = n
            return n
        for l in lines:
            try:
                inner = json.loads(l)
            except ValueError:
                continue
            if inner.startswith('{"init":'):
                n = node(inner[8:-1])
                if n not in g.inits:
                    g.inits.append(n)
                continue
            if not inner.startswith('{"from":'):
                continue
            ia = inner.find(',"act":{')
            it = inner.find(',"to":{', ia)
            il = inner.rfind(',"lvl":')
            if ia < 0 or it < 0 or il < 0:
                raise ValueError('unexpected edge line: ' + inner[:200])
            fr, ac, to = inner[8:ia], inner[ia + 7:it], inner[it + 6:il]
            nf, nt = node(fr), node(to)
            ek = (nf, ac, nt)
            if ek in seen_edges:
                continue
            seen_edges.add(ek)
            g.out[nf].append((json.loads(ac), nt))
            g.n_edges += 1
        return g

    @classmethod
    def from_printed(cls, printed):
        g = cls()
        seen_edges = set()
        for o in printed:
            if 'init' in o:
                n = g.node(o['init'])
                if n not in g.inits:
                    g.inits.append(n)
            elif 'from' in o:
                nf, nt = g.node(o['from']), g.node(o['to'])
                ek = (nf, canon(o['act']), nt)
                if ek in seen_edges:
                    continue
                seen_edges.add(ek)
                g.out[nf].append((o['act'], nt))
                g.n_edges += 1
        g._ids = None
        return g

    def bfs_tree(self):
        """parent[n] = (parent id, act) for every reachable n; inits map to None."""
        from collections import deque
        parent = {}
        order = []
        dq = deque()
        for n in self.inits:
            parent[n] = None
            dq.append(n)
        while dq:
            n = dq.popleft()
            order.append(n)
            for act, nt in self.out[n]:
                if nt not in parent:
                    parent[nt] = (n, act)
                    dq.append(nt)
        return parent, order

    def path_to(self, parent, n):
        acts = []
        while parent[n] is not None:
            pn, act = parent[n]
            acts.append((act, n))
            n = pn
        acts.reverse()
        return n, acts   # init id, [(act, id after act)]


def behaviours_from_printed(printed):
    """Simulation mode: rebuild the behaviours from the emitted edges.

    Each edge carries lvl (TLCGet("level") of its source state).  The simulator evaluates
    the action constraint on several candidate successors of the same state and then
    takes one of them, so there may be several edges per level; the one taken is the one
    whose target is the source of the next level."""
    behs_levels, cur = [], None
    for o in printed:
        if 'from' not in o:
            continue
        lvl = o.get('lvl')
        if cur is None or lvl < cur[-1][0]['lvl'] or (lvl == 1 and cur[-1][0]['lvl'] != 1):
            if cur:
                behs_levels.append(cur)
            cur = [[o]]
        elif lvl == cur[-1][0]['lvl']:
            cur[-1].append(o)
        else:
            cur.append([o])
    if cur:
        behs_levels.append(cur)
    behs = []
    for levels in behs_levels:
        chosen = [None] * len(levels)
        nxt_from = None
        ok = True
        for k in range(len(levels) - 1, -1, -1):
            cands = levels[k]
            if nxt_from is None:
                c = cands[-1]
            else:
                c = next((x for x in cands if canon(x['to']) == nxt_from), None)
                if c is None:
                    ok = False
                    break
            chosen[k] = c
            nxt_from = canon(c['from'])
        if ok and chosen and chosen[0]['lvl'] == 1:
            behs.append(chosen)
        elif not ok:
            # keep the consistent suffix-free prefix: levels before the break are unusable
            pass
    return behs
