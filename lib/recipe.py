"""The recurring recipe: TLC exhaustive check -> labelled graph -> replay into the real
code (layer 1) -> TLC monitor on observed sequences of divergent replays (layer 2)."""
import json
import random

from . import monitor, replay, tlc


def design_check(ctx, label, module, constants, invariants=(), properties=(),
                 view='View', constraints=(), action_constraints=(), workers=None,
                 emit=False, simulate=None, depth=None, timeout=900, spec=None,
                 deadlock=False, expect_violation=None, symmetry=None, heap='8g'):
    """Run TLC on the spec.  With emit=True runs single-worker and returns the labelled
    graph (exhaustive) or list of behaviours (simulate).  A violated formula is reported
    as a VIOLATION (the design itself admits a bad state) unless expect_violation names it."""
    cons = list(constraints)
    acs = list(action_constraints)
    if emit:
        cons.append('EmitInit')
        acs.append('EmitEdge')
        workers = 1
    cfg = tlc.make_cfg(constants=constants, invariants=invariants, properties=properties,
                       view=view, constraints=cons, action_constraints=acs, spec=spec,
                       deadlock=deadlock, symmetry=symmetry)
    res = tlc.run(module, cfg, workers=workers, simulate=simulate, depth=depth,
                  seed=(ctx.seed if simulate is not None else None), timeout=timeout, heap=heap)
    ctx.tlc(label, res)
    ctx.log('TLC %s: %s %d distinct / %d generated, depth %d, %.1fs%s' % (
        label, res.mode, res.distinct, res.generated, res.depth, res.wall_s,
        ' VIOLATED: ' + ','.join(v['name'] for v in res.violations) if res.violations else ''))
    for v in res.violations:
        if expect_violation and v['name'] in expect_violation:
            continue
        ctx.violation('TLC: %s violated in %s (%s)' % (v['name'], module, label),
                      'tlc:%s:%s' % (label, v['name']),
                      replay={'module': module, 'constants': constants, 'trace': v['trace']})
    out = None
    if emit:
        if simulate is None:
            out = tlc.Graph.from_lines(res.lines)
        else:
            out = tlc.behaviours_from_printed(res.printed)
    res.printed = None      # free the raw output
    res.out = ''
    return res, out


def tlc_only(label, module, constants, invariants=(), properties=(), view='View',
             constraints=(), action_constraints=(), workers=None, emit=False, simulate=None,
             depth=None, timeout=900, seed=None, heap='8g', deadlock=False, spec=None,
             budget_ok=False):
    """Thread-safe half of design_check: just run TLC (no ctx access)."""
    cons = list(constraints)
    acs = list(action_constraints)
    if emit:
        cons.append('EmitInit')
        acs.append('EmitEdge')
        workers = 1
    cfg = tlc.make_cfg(constants=constants, invariants=invariants, properties=properties,
                       view=view, constraints=cons, action_constraints=acs, spec=spec,
                       deadlock=deadlock)
    return tlc.run(module, cfg, workers=workers, simulate=simulate, depth=depth,
                   seed=(seed if simulate is not None else None), timeout=timeout, heap=heap,
                   budget_ok=budget_ok and (not emit or simulate is not None))


def account(ctx, label, module, constants, res, emit=False, simulate=False,
            expect_violation=None):
    """Main-thread half: evidence accounting, verdicts, graph / behaviour extraction."""
    ctx.tlc(label, res)
    ctx.log('TLC %s: %s %d distinct / %d generated, depth %d, %.1fs%s' % (
        label, res.mode, res.distinct, res.generated, res.depth, res.wall_s,
        ' VIOLATED: ' + ','.join(v['name'] for v in res.violations) if res.violations else ''))
    for v in res.violations:
        if expect_violation and v['name'] in expect_violation:
            continue
        ctx.violation('TLC: %s violated in %s (%s)' % (v['name'], module, label),
                      'tlc:%s:%s' % (label, v['name']),
                      replay={'module': module, 'constants': constants, 'trace': v['trace']})
    out = None
    if emit:
        out = (tlc.behaviours_from_printed(res.printed) if simulate
               else tlc.Graph.from_lines(res.lines))
    res.printed = None
    res.out = ''
    return out


def conform(ctx, label, source, make_adapter, mon_module=None, mon_invariants=(),
            mon_properties=(), mon_constants=None, sample=None, budget_s=None,
            procs=None, strict=False, monitor_all=False, known=()):
    """known: list of (tolerance constant, formulas) -- for walks, the observed sequences
    are additionally judged with that tolerance switched off; a falsified formula is
    reported with signature 'strict:<constant>:…' (matched by known_findings.json)."""
    """Replay `source` (Graph or list of behaviours) into the implementation.

    Divergences are handed to the TLC monitor; a formula falsified on an observed
    sequence is a VIOLATION, anything else is recorded as a divergence.
    strict=True: a divergence the monitor cannot judge (no monitor module) is a violation
    of conformance -- used only where the spec *is* the property (see DESIGN)."""
    rng = random.Random(ctx.seed)
    if isinstance(source, tlc.Graph):
        r = replay.replay_graph(source, make_adapter, rng=rng, sample=sample,
                                budget_s=budget_s, procs=procs)
    else:
        r = replay.replay_behaviours(source, make_adapter, budget_s=budget_s, procs=procs,
                                     keep_obs=monitor_all or bool(known))
    ctx.traces += r['paths']
    ctx.replay_steps += r['steps']
    summary = {k: v for k, v in r.items() if k not in ('divergences', 'observations')}
    summary['label'] = label
    summary['n_divergences'] = len(r['divergences'])
    ctx.log('replay %s: %d paths, %d steps, %.1fs, %d divergences' % (
        label, r['paths'], r['steps'], r['wall_s'], len(r['divergences'])))
    ctx.extra.setdefault('replays', []).append(summary)
    divs = r['divergences']
    if divs:
        ctx.log('%s: %d divergence(s), first: %s' % (label, len(divs), divs[0]['signature']))
        judge(ctx, label, divs, mon_module, mon_invariants, mon_properties, mon_constants,
              strict=strict)
    obs = r.get('observations') or []
    if obs and mon_module and monitor_all:
        # property formulas evaluated by TLC on *every* observed execution, conformant or not
        _, verdicts = monitor.check(mon_module, obs, invariants=mon_invariants,
                                    properties=mon_properties, constants=mon_constants)
        ctx.extra['observed_traces_monitored'] = ctx.extra.get('observed_traces_monitored', 0) + len(obs)
        seen = set()
        for v in verdicts:
            if v['name'] in seen or v['trace'] is None:
                continue
            seen.add(v['name'])
            ctx.violation('observed execution of the real code falsifies %s (%s)' % (v['name'], label),
                          'observed:%s:%s' % (label, v['name']),
                          replay={'obs': obs[v['trace']], 'at': v['at']})
    for tol, formulas in known:
        if not (obs and mon_module):
            break
        mc = dict(mon_constants, **{tol: 'FALSE'})
        invs = [f for f in formulas if f in mon_invariants]
        props = [f for f in formulas if f in mon_properties]
        _, verdicts = monitor.check(mon_module, obs, invariants=invs, properties=props, constants=mc)
        seen = set()
        for v in verdicts:
            if v['name'] in seen or v['trace'] is None:
                continue
            seen.add(v['name'])
            ctx.violation('with tolerance %s off, an observed execution of the real code falsifies %s (%s)'
                          % (tol, v['name'], label),
                          'strict:%s:%s' % (tol, v['name']),
                          replay={'obs': obs[v['trace']], 'at': v['at']})
    return r


def judge(ctx, label, divs, mon_module, mon_invariants, mon_properties, mon_constants,
          strict=False):
    # judge every divergent observation (bounded), shortest first; report once per signature
    divs = sorted(divs, key=lambda d: len(d['obs']))[:400]
    verdicts = []
    judged = [d for d in divs if d['obs']]
    if mon_module and judged:
        _, verdicts = monitor.check(mon_module, [d['obs'] for d in judged],
                                    invariants=mon_invariants, properties=mon_properties,
                                    constants=mon_constants)
    bad = {}
    for v in verdicts:
        if v['trace'] is not None:
            bad.setdefault(v['trace'], []).append(v)
    reported = set()
    for i, d in enumerate(judged):
        if i in bad:
            names = sorted(set(v['name'] for v in bad[i]))
            if (tuple(names), d['signature']) in reported:
                continue
            reported.add((tuple(names), d['signature']))
            ctx.violation(
                'observed execution of the real code falsifies %s (%s); diverged at step %d (%s)'
                % (', '.join(names), label, d['step'], d['signature']),
                'replay:%s:%s:%s' % (label, '+'.join(names), d['signature']),
                replay=d)
        else:
            if d['signature'] in reported:
                continue
            reported.add(d['signature'])
            d2 = {k: d[k] for k in ('signature', 'step', 'expected', 'observed', 'note')}
            d2['acts'] = d['acts'][:d['step'] + 1]
            d2['label'] = label
            if strict:
                ctx.violation('real code does not follow the specification (%s): %s'
                              % (label, d['signature']),
                              'conformance:%s:%s' % (label, d['signature']), replay=d)
            else:
                ctx.divergence(d2)
    hung = False
    for d in divs:
        if d['kind'] == 'hang' and not hung:
            hung = True
            ctx.violation('a call into the real code never returned while replaying %s (last action %s)'
                          % (label, d['acts'][-1].get('name') if d['acts'] else '?'),
                          'hang:%s:%s' % (label, d['signature']),
                          replay={'acts': d['acts'], 'note': d['note']})
        elif not d['obs']:
            d2 = {k: d[k] for k in ('signature', 'step', 'note')}
            d2['label'] = label
            ctx.divergence(d2)
