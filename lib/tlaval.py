"""Parser for TLA+ values as printed by TLC (error traces, -simulate files).

ints, strings, TRUE/FALSE, model values, <<..>>, {..}, [f |-> v, ..], (k :> v @@ ..), a..b
Python mapping: tuple -> list, set -> sorted list (marked by class TSet), record -> dict,
function -> dict.
"""
import re

_TOK = re.compile(r'''\s*(?:
    (?P<int>-?\d+) |
    (?P<str>"(?:[^"\\]|\\.)*") |
    (?P<sym><<|>>|\|->|:>|@@|\.\.|[\[\]{}(),]) |
    (?P<id>[A-Za-z_][A-Za-z0-9_!]*)
)''', re.X)


class TSet(list):
    pass


def tokenize(s):
    pos = 0
    out = []
    while pos < len(s):
        m = _TOK.match(s, pos)
        if not m:
            if s[pos:].strip() == '':
                break
            raise ValueError('cannot tokenize at %r' % s[pos:pos + 30])
        pos = m.end()
        kind = m.lastgroup
        out.append((kind, m.group(kind)))
    return out


class _P:
    def __init__(self, toks):
        self.t = toks
        self.i = 0

    def peek(self):
        return self.t[self.i] if self.i < len(self.t) else (None, None)

    def eat(self, val=None):
        k, v = self.peek()
        if val is not None and v != val:
            raise ValueError('expected %r got %r' % (val, v))
        self.i += 1
        return k, v

    def value(self):
        k, v = self.eat()
        if k == 'int':
            r = int(v)
            if self.peek()[1] == '..':
                self.eat()
                hi = self.value()
                return TSet(range(r, hi + 1))
            return r
        if k == 'str':
            return bytes(v[1:-1], 'utf-8').decode('unicode_escape')
        if k == 'id':
            if v == 'TRUE':
                return True
            if v == 'FALSE':
                return False
            return v
        if v == '<<':
            items = []
            while self.peek()[1] != '>>':
                items.append(self.value())
                if self.peek()[1] == ',':
                    self.eat()
            self.eat('>>')
            return items
        if v == '{':
            items = TSet()
            while self.peek()[1] != '}':
                items.append(self.value())
                if self.peek()[1] == ',':
                    self.eat()
            self.eat('}')
            return items
        if v == '[':
            d = {}
            while self.peek()[1] != ']':
                _, name = self.eat()
                self.eat('|->')
                d[name] = self.value()
                if self.peek()[1] == ',':
                    self.eat()
            self.eat(']')
            return d
        if v == '(':
            d = {}
            while True:
                key = self.value()
                self.eat(':>')
                d[key if not isinstance(key, list) else tuple(key)] = self.value()
                if self.peek()[1] == '@@':
                    self.eat()
                    continue
                break
            self.eat(')')
            return d
        raise ValueError('unexpected token %r' % v)


def parse(s):
    p = _P(tokenize(s))
    v = p.value()
    return v


_STATE = re.compile(r'^State (\d+): (.*)$')


def parse_trace(text):
    """TLC error-trace text -> list of {'_n':int, '_hdr':str, var: value, ...}."""
    states = []
    cur = None
    buf = []

    def flush():
        if cur is None or not buf:
            return
        body = '\n'.join(buf)
        parts = re.split(r'(?m)^/\\ ', body)
        for part in parts:
            part = part.strip()
            if not part:
                continue
            m = re.match(r'(\w+) = (.*)$', part, re.S)
            if m:
                try:
                    cur[m.group(1)] = parse(m.group(2))
                except ValueError:
                    cur[m.group(1)] = m.group(2)
    for line in text.splitlines():
        m = _STATE.match(line)
        if m:
            flush()
            cur = {'_n': int(m.group(1)), '_hdr': m.group(2)}
            states.append(cur)
            buf = []
        elif cur is not None:
            if line.startswith(('Error:', 'Finished', 'Progress')):
                continue
            buf.append(line)
    flush()
    return states
