"""Binding A: replay TLC behaviours into real objects.

An *adapter* wraps the real implementation object(s):

    class Adapter:
        def reset(self, init_state): ...     # build the real object for a TLC initial state
        def step(self, act): ...             # perform the labelled action on the real object
        def project(self): ...               # real state -> dict shaped like TLC's Proj
        def normalize(self, state): ...      # optional: canonicalise (e.g. sort set-valued lists)
        def quiesce(self): ...               # optional: generator of (act, projected state) driving
                                             #   the real object to a quiet point after a divergence
        def close(self): ...                 # optional cleanup

Layer 1 (conformance) = equality of projected states after every replayed step.
A layer-1 failure is a *divergence*; whether it is a property violation is decided
by the TLC monitor (lib/monitor.py) on the observed state sequence.
"""
import json
import multiprocessing
import os
import random
import time
import traceback

from .tlc import canon


class Unrealizable(Exception):
    """Raised by an adapter when a spec path cannot be forced onto the real object
    (not a divergence; counted separately)."""


class Divergence:
    def __init__(self, kind, step, acts, expected, observed, obs, note=''):
        self.kind = kind            # 'state' | 'exception' | 'init'
        self.step = step            # index into acts of the diverging step (-1: initial state)
        self.acts = acts            # full list of act dicts of the replayed path
        self.expected = expected
        self.observed = observed
        self.obs = obs              # observed sequence [{'act':…, 'state':…}, …] incl. free run
        self.note = note

    def signature(self):
        a = self.acts[self.step] if 0 <= self.step < len(self.acts) else {'name': 'init'}
        diff = sorted(k for k in set(self.expected or {}) | set(self.observed or {})
                      if (self.expected or {}).get(k) != (self.observed or {}).get(k)) \
            if isinstance(self.expected, dict) and isinstance(self.observed, dict) else []
        return '%s@%s:%s' % (self.kind, a.get('name'), ','.join(diff))

    def to_json(self):
        return {'kind': self.kind, 'step': self.step, 'acts': self.acts,
                'expected': self.expected, 'observed': self.observed,
                'obs': self.obs, 'note': self.note, 'signature': self.signature()}


def _norm(adapter, s):
    f = getattr(adapter, 'normalize', None)
    return f(s) if f else s


def replay_path(make_adapter, init_state, steps, free_run=True):
    """steps: list of (act, expected_state).  Returns (n_steps_done, Divergence|None)."""
    ad = make_adapter()
    acts = [a for a, _ in steps]
    obs = []
    try:
        try:
            ad.reset(init_state)
            s = _norm(ad, ad.project())
        except Exception:
            return 0, Divergence('exception', -1, acts, init_state, None, obs,
                                 traceback.format_exc())
        obs.append({'act': {'name': 'Init'}, 'state': s})
        if canon(s) != canon(_norm(ad, init_state)):
            return 0, Divergence('init', -1, acts, init_state, s, obs)
        for i, (act, exp) in enumerate(steps):
            try:
                oact = ad.step(act) or act
                s = _norm(ad, ad.project())
            except Unrealizable:
                return i, None
            except Exception:
                return i, Divergence('exception', i, acts, exp, None, obs,
                                     traceback.format_exc())
            obs.append({'act': oact, 'state': s})
            if canon(s) != canon(_norm(ad, exp)) or canon(oact) != canon(act):
                d = Divergence('state', i, acts, _norm(ad, exp), s, obs)
                if free_run:
                    # free run: keep feeding the remaining environment actions to the
                    # real object (no comparison) so the monitor sees what follows
                    for act2, _ in steps[i + 1:]:
                        try:
                            o2 = ad.step(act2) or act2
                            obs.append({'act': o2, 'state': _norm(ad, ad.project())})
                        except Exception:
                            break
                if free_run and hasattr(ad, 'quiesce'):
                    try:
                        for a2, s2 in ad.quiesce():
                            obs.append({'act': a2, 'state': _norm(ad, s2)})
                    except Exception:
                        d.note = 'quiesce raised: ' + traceback.format_exc()
                return i, d
        return len(steps), None
    finally:
        c = getattr(ad, 'close', None)
        if c:
            try:
                c()
            except Exception:
                pass


def plan_targets(graph, rng=None, sample=None):
    """Path cover: list of (init_key, [(act, key)]) such that every edge is the last
    step of, or lies on, some path.  sample=N keeps N random targets."""
    parent, order = graph.bfs_tree()
    depth = {}
    for k in order:
        depth[k] = 0 if parent[k] is None else depth[parent[k][0]] + 1
    targets = []
    for k in order:
        for act, kt in graph.out[k]:
            targets.append((depth[k] + 1, k, act, kt))
    # longest first so shorter tree paths get covered by prefixes
    targets.sort(key=lambda t: -t[0])
    if sample is not None and sample < len(targets):
        rng = rng or random.Random(0)
        targets = rng.sample(targets, sample)
        targets.sort(key=lambda t: -t[0])
    covered = set()
    plans = []
    for _, k, act, kt in targets:
        ek = (k, canon(act), kt)
        if ek in covered:
            continue
        ik, path = graph.path_to(parent, k)
        full = path + [(act, kt)]
        prev = ik
        for a, kk in full:
            covered.add((prev, canon(a), kk))
            prev = kk
        plans.append((ik, full))
    return plans, len(covered)


_G = {}


def _worker(args):
    plans, budget_s = args
    make_adapter, graph_states = _G['make'], _G['states']
    t0 = time.time()
    done = steps = 0
    divs = []
    for ik, full in plans:
        if budget_s and time.time() - t0 > budget_s:
            break
        n, d = replay_path(make_adapter, graph_states[ik],
                           [(a, graph_states[k]) for a, k in full])
        steps += n
        done += 1
        if d is not None:
            divs.append(d.to_json())
            if len(divs) >= 50:
                break
    return done, steps, divs


def replay_graph(graph, make_adapter, *, rng=None, sample=None, budget_s=None,
                 procs=None):
    """Replay a path cover of `graph` into the implementation.

    Returns dict(paths, steps, edges_covered, edges_total, divergences=[…], complete)."""
    plans, ncov = plan_targets(graph, rng=rng, sample=sample)
    procs = procs or min(16, os.cpu_count() or 1)
    procs = max(1, min(procs, len(plans)))
    chunks = [plans[i::procs] for i in range(procs)]
    t0 = time.time()
    _G['make'], _G['states'] = make_adapter, graph.state
    if procs == 1:
        results = [_worker((chunks[0], budget_s))]
    else:
        ctx = multiprocessing.get_context('fork')
        with ctx.Pool(procs) as pool:
            results = pool.map(_worker, [(c, budget_s) for c in chunks])
    done = sum(r[0] for r in results)
    steps = sum(r[1] for r in results)
    divs = [d for r in results for d in r[2]]
    return {'paths_planned': len(plans), 'paths': done, 'steps': steps,
            'edges_covered': ncov if done == len(plans) else None,
            'edges_total': graph.n_edges,
            'complete': done == len(plans) and sample is None,
            'divergences': divs, 'wall_s': time.time() - t0}


def replay_behaviours(behs, make_adapter, *, budget_s=None, procs=None):
    """behs: list of behaviours, each a list of edge dicts {from, act, to}."""
    plans = []
    states = {}
    for b in behs:
        if not b:
            continue
        ik = canon(b[0]['from'])
        states[ik] = b[0]['from']
        full = []
        for e in b:
            k = canon(e['to'])
            states[k] = e['to']
            full.append((e['act'], k))
        plans.append((ik, full))
    procs = procs or min(16, os.cpu_count() or 1)
    procs = max(1, min(procs, len(plans) or 1))
    chunks = [plans[i::procs] for i in range(procs)]
    t0 = time.time()
    _G['make'], _G['states'] = make_adapter, states
    if procs == 1:
        results = [_worker((chunks[0], budget_s))]
    else:
        ctx = multiprocessing.get_context('fork')
        with ctx.Pool(procs) as pool:
            results = pool.map(_worker, [(c, budget_s) for c in chunks])
    return {'paths_planned': len(plans), 'paths': sum(r[0] for r in results),
            'steps': sum(r[1] for r in results),
            'divergences': [d for r in results for d in r[2]],
            'wall_s': time.time() - t0}
