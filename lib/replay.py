"""Binding A: replay TLC behaviours into real objects.

An *adapter* wraps the real implementation object(s):

    class Adapter:
        def reset(self, init_state): ...     # build the real object for a TLC initial state
        def step(self, act): ...             # perform the labelled action on the real object
        def project(self): ...               # real state -> dict shaped like TLC's Proj
        def normalize(self, state): ...      # optional: canonicalise (e.g. sort set-valued lists)
        def quiesce(self): ...               # optional: generator of (act, projected state) driving
                                             #   the real object to a quiet point after a divergence
        def close(self): ...                 # optional cleanup

Layer 1 (conformance) = equality of projected states after every replayed step.
A layer-1 failure is a *divergence*; whether it is a property violation is decided
by the TLC monitor (lib/monitor.py) on the observed state sequence.
"""
import json
import multiprocessing
import os
import random
import threading
import time
import traceback

from .tlc import canon


class Unrealizable(Exception):
    """Raised by an adapter when a spec path cannot be forced onto the real object
    (not a divergence; counted separately)."""


class _Snap(str):
    """a projected state frozen as its canonical JSON text (adapters may hand out live,
    mutable objects)"""


def _thaw(obs):
    return [{'act': o['act'], 'state': json.loads(o['state']) if isinstance(o['state'], _Snap)
             else o['state']} for o in obs]


class Divergence:
    def __init__(self, kind, step, acts, expected, observed, obs, note=''):
        self.kind = kind            # 'state' | 'exception' | 'init'
        self.step = step            # index into acts of the diverging step (-1: initial state)
        self.acts = acts            # full list of act dicts of the replayed path
        self.expected = expected
        self.observed = observed
        self.obs = obs              # observed sequence [{'act':…, 'state':…}, …] incl. free run
        self.note = note

    def signature(self):
        a = self.acts[self.step] if 0 <= self.step < len(self.acts) else {'name': 'init'}
        diff = sorted(k for k in set(self.expected or {}) | set(self.observed or {})
                      if (self.expected or {}).get(k) != (self.observed or {}).get(k)) \
            if isinstance(self.expected, dict) and isinstance(self.observed, dict) else []
        return '%s@%s:%s' % (self.kind, a.get('name'), ','.join(diff))

    def to_json(self):
        return {'kind': self.kind, 'step': self.step, 'acts': self.acts,
                'expected': self.expected, 'observed': self.observed,
                'obs': _thaw(self.obs), 'note': self.note, 'signature': self.signature()}


def _norm(adapter, s):
    f = getattr(adapter, 'normalize', None)
    return f(s) if f else s


def replay_path(make_adapter, init_state, steps, free_run=True, obs_out=None):
    """init_state / expected states are canonical JSON strings of the normalised TLC
    state.  steps: list of (act, expected).  Returns (n_steps_done, Divergence|None)."""
    ad = make_adapter()
    acts = [a for a, _ in steps]
    obs = [] if obs_out is None else obs_out
    try:
        try:
            ad.reset(json.loads(init_state))
            s = _norm(ad, ad.project())
        except Exception:
            return 0, Divergence('exception', -1, acts, json.loads(init_state), None, obs,
                                 traceback.format_exc())
        cs = canon(s)
        obs.append({'act': {'name': 'Init'}, 'state': _Snap(cs)})
        if cs != init_state:
            d = Divergence('init', -1, acts, json.loads(init_state), s, obs)
            if free_run:
                # the implementation starts out differently: what it goes on to do is still observed
                if hasattr(ad, 'set_free'):
                    ad.set_free()
                for act2, _ in steps:
                    try:
                        o2 = ad.step(act2) or act2
                        obs.append({'act': o2, 'state': _Snap(canon(_norm(ad, ad.project())))})
                    except Unrealizable:
                        continue
                    except Exception:
                        break
                if hasattr(ad, 'quiesce'):
                    try:
                        for a2, s2 in ad.quiesce():
                            obs.append({'act': a2, 'state': _Snap(canon(_norm(ad, s2)))})
                    except Exception:
                        d.note = 'quiesce raised: ' + traceback.format_exc()
            return 0, d
        for i, (act, exp) in enumerate(steps):
            try:
                oact = ad.step(act) or act
                s = _norm(ad, ad.project())
            except Unrealizable:
                return i, None
            except Exception:
                return i, Divergence('exception', i, acts, json.loads(exp), None, obs,
                                     traceback.format_exc())
            cs = canon(s)
            obs.append({'act': oact, 'state': _Snap(cs)})
            if cs != exp or (oact is not act and canon(oact) != canon(act)):
                d = Divergence('state', i, acts, json.loads(exp), s, obs)
                if free_run:
                    # free run: keep feeding the remaining environment actions to the
                    # real object (no comparison) so the monitor sees what follows; an adapter
                    # may switch to following the implementation's own next steps (set_free)
                    if hasattr(ad, 'set_free'):
                        ad.set_free()
                    for act2, _ in steps[i + 1:]:
                        try:
                            o2 = ad.step(act2) or act2
                            obs.append({'act': o2, 'state': _Snap(canon(_norm(ad, ad.project())))})
                        except Unrealizable:
                            continue
                        except Exception:
                            break
                if free_run and hasattr(ad, 'quiesce'):
                    try:
                        for a2, s2 in ad.quiesce():
                            obs.append({'act': a2, 'state': _Snap(canon(_norm(ad, s2)))})
                    except Exception:
                        d.note = 'quiesce raised: ' + traceback.format_exc()
                return i, d
        return len(steps), None
    finally:
        c = getattr(ad, 'close', None)
        if c:
            try:
                c()
            except Exception:
                pass


def plan_targets(graph, rng=None, sample=None):
    """Path cover: list of (init_id, [(act, node_id)]) such that every edge is the last
    step of, or lies on, some path.  sample=N keeps N random targets."""
    parent, order = graph.bfs_tree()
    depth = {}
    for n in order:
        depth[n] = 0 if parent[n] is None else depth[parent[n][0]] + 1
    targets = []
    for n in order:
        for ei, (act, nt) in enumerate(graph.out[n]):
            targets.append((depth[n] + 1, n, ei, nt))
    # longest first so shorter tree paths get covered by prefixes
    targets.sort(key=lambda t: -t[0])
    if sample is not None and sample < len(targets):
        rng = rng or random.Random(0)
        targets = rng.sample(targets, sample)
        targets.sort(key=lambda t: -t[0])
    # tree edge index: parent edge of node n is identified by (pn, id(act))
    tree_edge = {}
    for n in order:
        if parent[n] is not None:
            pn, act = parent[n]
            for ei, (a2, nt) in enumerate(graph.out[pn]):
                if a2 is act and nt == n:
                    tree_edge[n] = (pn, ei)
                    break
    covered = set()
    plans = []
    for _, n, ei, nt in targets:
        if (n, ei) in covered:
            continue
        ik, path = graph.path_to(parent, n)
        act = graph.out[n][ei][0]
        full = path + [(act, nt)]
        covered.add((n, ei))
        k = n
        while parent[k] is not None:
            covered.add(tree_edge[k])
            k = parent[k][0]
        plans.append((ik, full))
    # initial states nothing leads out of still have to be set up and compared
    started = {ik for ik, _ in plans}
    for n in graph.inits:
        if n not in started and (sample is None or len(plans) < sample + len(graph.inits)):
            plans.append((n, []))
    return plans, len(covered)


_G = {}


PATH_TIMEOUT_S = 40      # one replayed path normally takes milliseconds


class PathTimeout(BaseException):
    pass


def _alarm(signum, frame):
    raise PathTimeout()


def _worker(args):
    import signal
    plans, exp, budget_s, keep_obs = args
    make_adapter = _G['make']
    t0 = time.time()
    done = steps = 0
    divs = []
    kept = []
    can_alarm = threading.current_thread() is threading.main_thread()
    if can_alarm:
        signal.signal(signal.SIGALRM, _alarm)
    for ik, full in plans:
        if budget_s and time.time() - t0 > budget_s:
            break
        if _HUNG is not None and _HUNG.value:
            break           # a hang has been established elsewhere: more paths only cost time-outs
        obs = [] if keep_obs else None
        try:
            if can_alarm:
                signal.setitimer(signal.ITIMER_REAL, PATH_TIMEOUT_S)
            n, d = replay_path(make_adapter, exp[ik], [(a, exp[k]) for a, k in full], obs_out=obs)
        except PathTimeout:
            # a machine under heavy load can be that slow: the path gets a second, longer chance
            # before it is called a hang
            if can_alarm:
                signal.setitimer(signal.ITIMER_REAL, 0)
            obs = [] if keep_obs else None
            try:
                if can_alarm:
                    signal.setitimer(signal.ITIMER_REAL, 3 * PATH_TIMEOUT_S)
                n, d = replay_path(make_adapter, exp[ik], [(a, exp[k]) for a, k in full], obs_out=obs)
            except PathTimeout:
                acts = [a for a, _ in full]
                n, d = 0, Divergence('hang', len(acts) - 1, acts, None, None, [],
                                     'a call into the implementation did not return within %ds, nor within '
                                     '%ds when the path was replayed again' % (PATH_TIMEOUT_S, 3 * PATH_TIMEOUT_S))
                if _HUNG is not None:
                    _HUNG.value = 1
        finally:
            if can_alarm:
                signal.setitimer(signal.ITIMER_REAL, 0)
        steps += n
        done += 1
        if d is not None:
            divs.append(d.to_json())
            if len(divs) >= 50 or d.kind == 'hang':
                break           # a hanging implementation would cost a time-out per path
        elif keep_obs:
            kept.append(_thaw(obs))
    return done, steps, divs, kept


_POOL = None
_HUNG = None        # shared flag: some worker has confirmed a hang in the current batch of chunks


def start_workers(procs=None):
    """Start the replay worker processes.  Called once, early (while this process is
    still small): forking from a process that holds a large state graph costs seconds
    of page-table copying per child and a page copy per touched object."""
    global _POOL, _HUNG
    if _POOL is None:
        procs = procs or min(16, os.cpu_count() or 1)
        ctx = multiprocessing.get_context('fork')
        _HUNG = ctx.RawValue('i', 0)            # created before the fork: shared with the workers
        _POOL = ctx.Pool(procs)
    return _POOL


def stop_workers():
    global _POOL
    if _POOL is not None:
        _POOL.terminate()
        _POOL.join()
        _POOL = None


def _remote(args):
    make_adapter, chunk = args
    _G['make'] = make_adapter
    return _worker(chunk)


def _fork_map(procs, args):
    pool = start_workers()
    make = _G['make']
    return list(pool.imap_unordered(_remote, [(make, a) for a in args], chunksize=1))


def _run_chunks(make_adapter, states, plans, procs, budget_s, keep_obs=False):
    """states: list id -> projected TLC state.  Expected states are normalised and
    canonicalised once in the parent and shipped with each chunk (touching inherited
    Python objects in forked children costs a page copy per object)."""
    procs = procs or min(16, os.cpu_count() or 1)
    procs = max(1, min(procs, len(plans) or 1))
    nch = procs if procs == 1 else max(procs, min(len(plans) // 40, procs * 16))
    norm = getattr(make_adapter(), 'normalize', None)
    cache = {}

    def exp_of(n):
        e = cache.get(n)
        if e is None:
            st = states[n]
            e = cache[n] = canon(norm(st) if norm else st)
        return e
    args = []
    for i in range(nch):
        ch = plans[i::nch]
        need = {}
        for ik, full in ch:
            need[ik] = exp_of(ik)
            for _, k in full:
                need[k] = exp_of(k)
        args.append((ch, need, budget_s, keep_obs))
    _G['make'] = make_adapter
    if _HUNG is not None:
        _HUNG.value = 0
    if procs == 1:
        return [_worker(a) for a in args]
    return _fork_map(procs, args)


def replay_graph(graph, make_adapter, *, rng=None, sample=None, budget_s=None,
                 procs=None):
    """Replay a path cover of `graph` into the implementation.

    Returns dict(paths, steps, edges_covered, edges_total, divergences=[…], complete)."""
    plans, ncov = plan_targets(graph, rng=rng, sample=sample)
    t0 = time.time()
    results = _run_chunks(make_adapter, graph.state, plans, procs, budget_s)
    done = sum(r[0] for r in results)
    steps = sum(r[1] for r in results)
    divs = [d for r in results for d in r[2]]
    return {'paths_planned': len(plans), 'paths': done, 'steps': steps,
            'edges_covered': ncov if done == len(plans) else None,
            'edges_total': graph.n_edges,
            'complete': done == len(plans) and sample is None,
            'divergences': divs, 'wall_s': time.time() - t0}


def replay_behaviours(behs, make_adapter, *, budget_s=None, procs=None, keep_obs=False):
    """behs: list of behaviours, each a list of edge dicts {from, act, to}."""
    plans = []
    states = []
    for b in behs:
        if not b:
            continue
        states.append(b[0]['from'])
        ik = len(states) - 1
        full = []
        for e in b:
            states.append(e['to'])
            full.append((e['act'], len(states) - 1))
        plans.append((ik, full))
    t0 = time.time()
    results = _run_chunks(make_adapter, states, plans, procs, budget_s, keep_obs=keep_obs)
    return {'paths_planned': len(plans), 'paths': sum(r[0] for r in results),
            'steps': sum(r[1] for r in results),
            'divergences': [d for r in results for d in r[2]],
            'observations': [o for r in results for o in r[3]],
            'wall_s': time.time() - t0}
