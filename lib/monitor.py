"""Layer 2: TLC as monitor over *observed* state sequences.

A monitor module `<X>Monitor.tla` EXTENDS the spec `<X>`, declares `tid` and `l`,
reads `Obs == JsonDeserialize(IOEnv.OBS_FILE)` (a sequence of traces, each a
sequence of [act, state]) and defines MonInit / MonNext that walk one trace.
The INVARIANT / PROPERTY names passed here are the spec's own property formulas.
"""
import json
import os
import re
import tempfile

from . import tlc

_TID = re.compile(r'(?m)^(?:/\\ )?tid = (\d+)')
_L = re.compile(r'(?m)^(?:/\\ )?l = (\d+)')


def check(module, traces, invariants=(), properties=(), constants=None,
          timeout=600, postcondition=None):
    """Returns (TLCResult, verdicts) where verdicts is a list of
    {'trace': index into traces, 'name': formula, 'kind':…, 'at': l}."""
    if not traces:
        return None, []
    fd, path = tempfile.mkstemp(prefix='verif-obs-', suffix='.json', dir='/var/tmp')
    try:
        with os.fdopen(fd, 'w') as fh:
            json.dump(traces, fh)
        cfg = tlc.make_cfg(constants=constants, init='MonInit', next_='MonNext',
                           invariants=invariants, properties=properties,
                           postcondition=postcondition)
        res = tlc.run(module, cfg, workers=1, env={'OBS_FILE': path},
                      timeout=timeout, cont=True)
    finally:
        try:
            os.unlink(path)
        except OSError:
            pass
    verdicts = []
    seen = set()
    for v in res.violations:
        tids = _TID.findall(v['trace'])
        ls = _L.findall(v['trace'])
        tid = int(tids[-1]) - 1 if tids else None
        key = (tid, v['name'])
        if key in seen:
            continue
        seen.add(key)
        verdicts.append({'trace': tid, 'name': v['name'], 'kind': v['kind'],
                         'at': int(ls[-1]) if ls else None})
    return res, verdicts
