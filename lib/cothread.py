"""Strict-alternation coroutines on real threads: exactly one of {driver, helper threads}
runs at any time, so executions are deterministic and every yield point is a scheduling
decision the driver (a TLC behaviour) makes."""
import threading


class Dead(BaseException):
    """unwinds a helper thread when its replay is over"""


class Co:
    def __init__(self, fn, name='co'):
        self.to_w = threading.Semaphore(0)
        self.to_d = threading.Semaphore(0)
        self.msg = None
        self.cmd = None
        self.finished = False
        self.dead = False
        self.crash = None
        self.kill = threading.Event()
        self.thread = threading.Thread(target=self._run, args=(fn,), daemon=True, name=name)

    def _run(self, fn):
        self.to_w.acquire()
        try:
            if not self.dead:
                fn()
        except Dead:
            pass
        except BaseException as exc:      # noqa
            self.crash = exc
            self.msg = ('crashed', repr(exc))
        self.finished = True
        self.to_d.release()

    def start(self, timeout=10):
        self.thread.start()
        return self.resume(timeout=timeout)

    # helper-thread side
    def yield_(self, what):
        if self.dead:
            raise Dead()
        self.msg = what
        self.to_d.release()
        self.to_w.acquire()
        if self.dead:
            raise Dead()
        return self.cmd

    # driver side
    def resume(self, cmd=None, timeout=10):
        if self.finished:
            raise RuntimeError('helper thread is gone')
        self.cmd = cmd
        self.to_w.release()
        if not self.to_d.acquire(timeout=timeout):
            raise RuntimeError('helper thread did not reach a yield point')
        return self.msg

    def destroy(self):
        self.dead = True
        self.kill.set()
        if not self.finished:
            self.to_w.release()
        if self.thread.is_alive():
            self.thread.join(5)
