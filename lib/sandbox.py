"""Run a real-process driver in its own session with a hard wall-clock limit; its whole
process group is killed afterwards (orphaned pool workers must not outlive a check)."""
import json
import os
import signal
import subprocess
import sys
import tempfile
import time

VERIF = os.path.dirname(os.path.dirname(os.path.abspath(__file__)))


def _default_signals():
    """a driver must not inherit ignored signals from whatever shell started the check (background
    jobs of a non-interactive shell ignore SIGINT and SIGQUIT): its children are killed with them"""
    for s in (signal.SIGINT, signal.SIGQUIT, signal.SIGHUP, signal.SIGTERM, signal.SIGUSR1, signal.SIGUSR2):
        try:
            signal.signal(s, signal.SIG_DFL)
        except (OSError, ValueError):
            pass


def time_scale():
    """Allowance factor for real-time bounds: 1 on an idle machine, growing with the 1-minute
    load per core (a bound that is tight on an idle machine must not become a false alarm on
    a busy one).  Bounds scale, lower bounds and counts never do."""
    try:
        per_core = os.getloadavg()[0] / max(1, os.cpu_count() or 1)
    except OSError:
        per_core = 0.0
    return round(min(6.0, max(1.0, 2.0 * per_core)), 2)


def run_driver(module, args, timeout, env=None):
    """python -m <module> <outfile> <args...>; returns (rc, parsed JSON or None, log text)."""
    repo = os.environ.get('VERIF_REPO', '/repo')
    fd, out = tempfile.mkstemp(prefix='verif-drv-', suffix='.json', dir='/var/tmp')
    os.close(fd)
    log = out + '.log'
    e = dict(os.environ)
    e['PYTHONPATH'] = VERIF + ':' + repo
    e['PYTHONHASHSEED'] = '0'
    e.setdefault('VERIF_TIME_SCALE', str(time_scale()))
    if env:
        e.update(env)
    with open(log, 'w') as lf:
        p = subprocess.Popen([sys.executable, '-m', module, out] + [str(a) for a in args],
                             cwd=VERIF, env=e, stdout=lf, stderr=subprocess.STDOUT,
                             start_new_session=True, preexec_fn=_default_signals)
        t0 = time.time()
        rc = None
        while time.time() - t0 < timeout:
            rc = p.poll()
            if rc is not None:
                break
            time.sleep(0.1)
        try:
            os.killpg(p.pid, signal.SIGKILL)
        except OSError:
            pass
        if rc is None:
            p.wait()
            rc = 'timeout'
    data = None
    try:
        with open(out) as fh:
            data = json.load(fh)
    except Exception:
        pass
    text = open(log).read()
    for f in (out, log):
        try:
            os.unlink(f)
        except OSError:
            pass
    return rc, data, text


class DriverCrash(Exception):
    """a real-process driver died of an exception raised *inside billiard* by a call that is valid
    on the unchanged tree: an observation about the code under test, not a machinery failure"""

    def __init__(self, what, log):
        Exception.__init__(self, what)
        self.what, self.log = what, log


def run_driver_patient(name, module, args, timeout, env=None):
    """run_driver; a driver that did not finish within its limit is run once more with twice the
    limit.  Two time-outs in a row are an observation about the code under test (a call into
    billiard that never returns; the drivers bound every wait of their own): DriverCrash.
    Returns (rc, data, log) of the run that finished."""
    rc, data, log = run_driver(module, args, timeout, env=env)
    if rc != 'timeout':
        return rc, data, log
    rc2, data2, log2 = run_driver(module, args, 2 * timeout, env=env)
    if rc2 != 'timeout':
        return rc2, data2, log2
    tail = [l for l in log2.splitlines() if l.strip()][-1:] or ['']
    raise DriverCrash('%s driver: never finished, twice (limits %d s and %d s): a call into billiard '
                      'does not return (last output: %s)' % (name, timeout, 2 * timeout, tail[0][:200]),
                      log2[-3000:])


def driver_failed(name, rc, log):
    """Raise DriverCrash if the driver's last traceback ends in the repository's billiard package
    (the checks report it as a violation), RuntimeError (machinery failure) otherwise."""
    repo = os.path.realpath(os.environ.get('VERIF_REPO', '/repo'))
    files = [l.strip() for l in log.splitlines() if l.strip().startswith('File "')]
    last_exc = [l for l in log.splitlines() if l and not l.startswith((' ', 'Traceback', 'During', 'The above'))]
    timed = bool(last_exc) and 'Timeout' in last_exc[-1].split(':')[0]     # a wait that ran out: load, not a verdict
    if rc not in (0, 'timeout') and files and not timed:
        inner = files[-1].split('"')[1]
        if os.path.realpath(inner).startswith(os.path.join(repo, 'billiard') + os.sep):
            raise DriverCrash('%s driver: a call that works on the unchanged tree raised inside billiard: %s (%s)'
                              % (name, last_exc[-1][:200] if last_exc else '?', files[-1][:160]), log[-3000:])
    raise RuntimeError('%s driver failed (rc=%s): %s' % (name, rc, log[-1500:]))
