#!/venv/bin/python
"""Seeded-change self-test.

  selftest.py import <src out dir> <patch file> <demo file> <seed id> <property> [helper files...]
      confirm in a scratch worktree that (1) the patch applies, (2) the repository's tests still
      pass with it, (3) the demonstration fails with it and passes without it; then store it as
      /verif/seeded/<seed id>/ {patch.diff, demo files, meta.json}
  selftest.py run <seed id> [property ...]
      apply the stored patch to a scratch worktree of /repo and run the quick check(s) of the
      property against it (VERIF_REPO=<worktree>); record verdicts in seeded/<id>/result.json

Scratch worktrees live under /var/tmp and are removed afterwards.
"""
import json
import os
import shutil
import signal
import subprocess
import sys
import time

VERIF = os.path.dirname(os.path.abspath(__file__))
SEEDED = os.path.join(VERIF, 'seeded')
PY = '/venv/bin/python'


def sh(cmd, cwd=None, timeout=900, env=None, log=None):
    """run in its own session, kill the group afterwards; returns (rc, output tail)"""
    out = log or '/var/tmp/verif-selftest-%d.log' % os.getpid()
    with open(out, 'w') as fh:
        def _defaults():       # a background shell hands down ignored SIGINT / SIGQUIT
            for s in (signal.SIGINT, signal.SIGQUIT, signal.SIGHUP):
                signal.signal(s, signal.SIG_DFL)
        p = subprocess.Popen(cmd, cwd=cwd, env=env, stdout=fh, stderr=subprocess.STDOUT,
                             start_new_session=True, shell=isinstance(cmd, str), preexec_fn=_defaults)
        t0 = time.time()
        rc = None
        while time.time() - t0 < timeout:
            rc = p.poll()
            if rc is not None:
                break
            time.sleep(0.2)
        try:
            os.killpg(p.pid, signal.SIGKILL)
        except OSError:
            pass
        if rc is None:
            p.wait()
            rc = 'timeout'
    text = open(out).read()
    if log is None:
        os.unlink(out)
    return rc, text if log else text[-3000:]


def worktree(tag):
    d = '/var/tmp/verif-seed-%s-%d' % (tag, os.getpid())
    subprocess.run(['git', '-C', '/repo', 'worktree', 'add', '--detach', d, 'HEAD'],
                   check=True, stdout=subprocess.DEVNULL, stderr=subprocess.DEVNULL)
    return d


def drop(d):
    subprocess.run(['git', '-C', '/repo', 'worktree', 'remove', '--force', d],
                   stdout=subprocess.DEVNULL, stderr=subprocess.DEVNULL)
    shutil.rmtree(d, ignore_errors=True)


def run_demo(tree, demodir, demo, timeout=180):
    env = dict(os.environ, PYTHONPATH=tree + ':' + demodir)
    return sh([PY, '-u', demo], cwd=demodir, env=env, timeout=timeout)


def cmd_import(src, patch, demo, sid, prop, helpers):
    dst = os.path.join(SEEDED, sid)
    os.makedirs(dst, exist_ok=True)
    shutil.copy(patch, os.path.join(dst, 'patch.diff'))
    shutil.copy(demo, os.path.join(dst, 'demo.py'))
    for h in helpers:
        shutil.copy(h, dst)
    notes = os.path.join(src, 'notes.md')
    if os.path.exists(notes):
        shutil.copy(notes, os.path.join(dst, 'notes.md'))
    meta = {'id': sid, 'property': prop, 'source': 'sub-agent given only the property text',
            'confirmed': {}}
    clean = worktree(sid + '-clean')
    pat = worktree(sid + '-patched')
    try:
        rc = subprocess.run(['git', '-C', pat, 'apply', os.path.join(dst, 'patch.diff')]).returncode
        meta['confirmed']['applies'] = (rc == 0)
        rc, out = sh('%s -m pytest -q -p no:cacheprovider --timeout=120 t/unit' % PY, cwd=pat,
                     timeout=600)
        tail = [l for l in out.splitlines() if ' passed' in l or ' failed' in l][-1:]
        meta['confirmed']['tests_with_patch'] = tail[0] if tail else 'rc=%s' % rc
        failed = [l for l in out.splitlines() if l.startswith('FAILED ')]
        if failed and all('test_on_ready_counter_is_synchronized' in l for l in failed):
            # 1 s get() with the spawn start method: fails under machine load on the clean tree too
            for _ in range(4):
                rc2, out2 = sh('%s -m pytest -q -p no:cacheprovider --timeout=120 t/unit/test_pool.py '
                               '-k on_ready_counter' % PY, cwd=pat, timeout=300)
                if ' passed' in out2 and ' failed' not in out2:
                    meta['confirmed']['tests_with_patch'] = tail[0].replace('1 failed, 39 passed', '40 passed') \
                        + ' (load-sensitive test_on_ready_counter_is_synchronized passed when rerun alone)'
                    break
                time.sleep(20)
            else:
                # still failing: is it the machine?  the same test alone on the unchanged tree
                rc3, out3 = sh('%s -m pytest -q -p no:cacheprovider --timeout=120 t/unit/test_pool.py '
                               '-k on_ready_counter' % PY, cwd=clean, timeout=300)
                if ' failed' in out3:
                    meta['confirmed']['tests_with_patch'] = tail[0].replace('1 failed, 39 passed', '39 passed') \
                        + ' (plus the load-sensitive test_on_ready_counter_is_synchronized, which fails on the' \
                          ' unchanged tree as well under the present machine load)'
        rc_p, out_p = run_demo(pat, dst, os.path.join(dst, 'demo.py'))
        rc_c, out_c = run_demo(clean, dst, os.path.join(dst, 'demo.py'))
        meta['confirmed']['demo_rc_with_patch'] = rc_p
        meta['confirmed']['demo_rc_clean'] = rc_c
        meta['ran'] = ['git apply patch.diff in a scratch worktree of /repo HEAD',
                       'pytest t/unit with the patch', 'demo.py with and without the patch']
        ok = meta['confirmed']['applies'] and rc_p not in (0,) and rc_c == 0 \
            and 'passed' in meta['confirmed']['tests_with_patch'] \
            and ' failed' not in meta['confirmed']['tests_with_patch'].split('(')[0]
        meta['kept'] = bool(ok)
    finally:
        drop(clean)
        drop(pat)
    with open(os.path.join(dst, 'meta.json'), 'w') as fh:
        json.dump(meta, fh, indent=1)
    print(sid, json.dumps(meta['confirmed']), 'KEPT' if meta['kept'] else 'REJECTED')
    return 0 if meta['kept'] else 1


def cmd_run(sid, props):
    dst = os.path.join(SEEDED, sid)
    meta = json.load(open(os.path.join(dst, 'meta.json')))
    props = props or [meta['property']]
    pat = worktree(sid + '-run')
    res = meta.setdefault('checks', {})
    try:
        subprocess.run(['git', '-C', pat, 'apply', os.path.join(dst, 'patch.diff')], check=True)
        evid = '/var/tmp/verif-seed-evid-%d' % os.getpid()
        for p in props:
            env = dict(os.environ, VERIF_REPO=pat, VERIF_EVIDENCE_DIR=evid)
            t0 = time.time()
            rc, out = sh([PY, os.path.join(VERIF, 'run.py'), p, '--tier', 'quick'], cwd=VERIF,
                         env=env, timeout=1800, log='/var/tmp/verif-seedlog-%s-%s.log' % (sid, p))
            viol = [l for l in out.splitlines() if l.startswith('VIOLATION')]
            sigs = [l.strip() for l in out.splitlines() if l.strip().startswith('signature:')]
            res[p] = {'rc': rc, 'violations': len(viol), 'signatures': sigs[:4],
                      'wall_s': round(time.time() - t0, 1),
                      'tail': out.splitlines()[-1:] if rc not in (0, 1) else []}
            print(sid, p, 'rc=%s' % rc, 'violations=%d' % len(viol), sigs[:2], flush=True)
        shutil.rmtree(evid, ignore_errors=True)
    finally:
        drop(pat)
    meta['detected'] = any(v['rc'] == 1 for v in res.values())
    with open(os.path.join(dst, 'meta.json'), 'w') as fh:
        json.dump(meta, fh, indent=1)
    return 0


if __name__ == '__main__':
    if sys.argv[1] == 'import':
        sys.exit(cmd_import(sys.argv[2], sys.argv[3], sys.argv[4], sys.argv[5], sys.argv[6],
                            sys.argv[7:]))
    elif sys.argv[1] == 'run':
        sys.exit(cmd_run(sys.argv[2], sys.argv[3:]))
